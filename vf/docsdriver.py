"""Driver executed in a fresh interpreter (cwd = repository root): applies a pre-history, attaches the flag-trace monitors,
runs the real documentation entry point docs/build.py main(["-R","-q","-g",out]) and afterwards a battery of computations.
Writes a JSON report.  Usage: python -m vf.docsdriver <spec.json> <report.json>"""
import hashlib
import importlib.util
import json
import os
import random
import sys
import traceback


def battery():
    """computations whose results must not depend on whether documentation was generated before"""
    import sympy
    from sympy import Eq, solve, symbols as sy, sin, sqrt, Rational
    from symplyphysics import Quantity, units, convert_to, Symbol
    from symplyphysics.core.expr_comparisons import expr_equals
    out = {}
    x, y = sy("x y")
    out["add"] = str(x + x + 2 * y - y)
    out["mul"] = str(x * x * y / x)
    out["pow"] = str((x**2) ** Rational(1, 2))
    out["expand"] = str(sympy.expand((x + y) ** 3))
    out["solve"] = str(solve(Eq(x**2 - 5 * x + 6, 0), x))
    out["expr_equals"] = str(expr_equals((x + 1) ** 2, x**2 + 2 * x + 1))
    out["trig"] = str(sympy.simplify(sin(x) ** 2 + sympy.cos(x) ** 2))
    out["int_mul"] = str(sympy.Integer(2) * 3 + sympy.Integer(4))
    out["q_sum"] = str(Quantity(2 * units.meter + 300 * units.centimeter).scale_factor)
    out["q_prod"] = str(Quantity(3 * units.newton * 2 * units.meter).scale_factor)
    out["q_conv"] = str(convert_to(Quantity(1 * units.hour), units.second))
    out["sqrt"] = str(sqrt(8))
    s = Symbol("s", units.length)
    out["lib_symbol_arith"] = str(s + s)
    from symplyphysics.laws.dynamics import acceleration_is_force_over_mass as law1
    from symplyphysics.laws.kinematics import speed_via_angular_speed_and_radius as law2
    out["calc1"] = str(law1.calculate_force(Quantity(2 * units.kilogram), Quantity(3 * units.meter / units.second**2)).scale_factor)
    try:
        fn = [v for k, v in vars(law2).items() if k.startswith("calculate")][0]
        out["law2_eq"] = str(law2.law)
    except Exception as e:  # pylint: disable=broad-except
        out["law2_eq"] = "ERR " + type(e).__name__
    out["law1_eq"] = str(law1.law)
    out["law1_solve"] = str(solve(law1.law, law1.symbols.mass))
    return out


def main():
    with open(sys.argv[1]) as f:
        spec = json.load(f)
    report = {"ok": False, "flag_trace": [], "flag_bad": [], "files": {}, "battery": None, "error": None}
    repo = os.getcwd()
    try:
        import symplyphysics  # noqa
        from sympy.core.parameters import global_parameters
        pre = spec.get("pre", "nothing")
        if pre == "catalogue":
            from vf import catalogue
            for name in catalogue.module_names(repo):
                try:
                    importlib.import_module(name)
                except Exception:  # pylint: disable=broad-except
                    pass
        elif pre == "computations":
            battery()
        # --- monitors
        from symplyphysics.core import processors
        import symplyphysics.docs.build as builder
        counts = {"disable": 0, "reset": 0, "modules": 0}
        orig_dis, orig_res = processors.disable_sympy_evaluation, processors.reset_sympy_evaluation

        def dis():
            counts["disable"] += 1
            return orig_dis()

        def res():
            r = orig_res()
            counts["reset"] += 1
            if global_parameters.evaluate is not True:
                report["flag_bad"].append({"where": "after reset_sympy_evaluation", "n": counts["reset"]})
            return r
        processors.disable_sympy_evaluation, processors.reset_sympy_evaluation = dis, res
        orig_find = builder.find_members_and_functions
        current = {"module": None}

        def find(parsed):
            try:
                return orig_find(parsed)
            finally:
                counts["modules"] += 1
                if global_parameters.evaluate is not True:
                    report["flag_bad"].append({"where": "control returned to the builder with evaluation off", "module_index": counts["modules"],
                                               "module": current["module"]})
        builder.find_members_and_functions = find
        orig_law = builder._process_law

        def plaw(directory, filename, output_dir, quiet):
            current["module"] = os.path.join(str(directory), filename)
            if global_parameters.evaluate is not True:
                report["flag_bad"].append({"where": "evaluation off between two modules", "module": current["module"]})
            return orig_law(directory, filename, output_dir, quiet)
        builder._process_law = plaw
        if spec.get("shuffle_walk") is not None:
            rnd = random.Random(spec["shuffle_walk"])
            real_walk = os.walk

            def walk(top, *a, **k):
                for path, dirs, files in real_walk(top, *a, **k):
                    rnd.shuffle(dirs)
                    rnd.shuffle(files)
                    yield path, dirs, files
            builder.os.walk = walk
        # --- the real entry point
        p = os.path.join(repo, "docs", "build.py")
        sp = importlib.util.spec_from_file_location("docs_build_entry", p)
        entry = importlib.util.module_from_spec(sp)
        sp.loader.exec_module(entry)
        if spec.get("shuffle_walk") is not None:
            builder.os.walk = walk
        args = ["-R", "-q", "-g", spec["out"]]
        if spec.get("laws_source_dir"):
            # a sub-package alone: the default exclusion ("core") does not exist below it, so no directory is excluded
            args += ["-l", spec["laws_source_dir"], "-e"]
        os.makedirs(spec["out"], exist_ok=True)
        entry.main(args)
        report["counts"] = counts
        report["flag_after"] = bool(global_parameters.evaluate is True)
        for fn in sorted(os.listdir(spec["out"])):
            with open(os.path.join(spec["out"], fn), "rb") as f:
                report["files"][fn] = hashlib.sha256(f.read()).hexdigest()
        report["battery"] = battery()
        report["ok"] = True
    except BaseException as e:  # pylint: disable=broad-except
        report["error"] = {"type": type(e).__name__, "message": str(e)[:300], "traceback": traceback.format_exc()[-1500:],
                           "cause": repr(e.__cause__)[:300] if e.__cause__ else None}
    with open(sys.argv[2], "w") as f:
        json.dump(report, f)


if __name__ == "__main__":
    main()
