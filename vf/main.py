"""./run <ID> <quick|thorough> | ./run <ID> --replay <path>"""
import importlib
import json
import os
import sys
import time

from vf import harness


def main(argv: list[str]) -> int:
    if len(argv) < 1:
        print("usage: run <ID> <quick|thorough> | run <ID> --replay <path>")
        return 2
    prop = argv[0].upper()
    mod = importlib.import_module(f"vf.checks.{prop.lower()}")
    if len(argv) >= 3 and argv[1] == "--replay":
        with open(argv[2]) as f:
            rp = json.load(f)
        spec = {"_replay": rp["case"], "_label": "replay"}
        res = harness.run_shards(prop.lower(), [spec], timeout=3600, nproc=1)[0]
        print(json.dumps({"key": rp.get("key"), "violations": res.get("violations"),
                          "inconclusive": res.get("inconclusive"), "notes": res.get("notes"),
                          "inconclusive_examples": res.get("inconclusive_examples")}, indent=1, default=str))
        return 1 if res.get("violations") else 0
    tier = argv[1] if len(argv) > 1 else os.environ.get("VERIF_TIER", "quick")
    if tier not in ("quick", "thorough"):
        print("tier must be quick or thorough")
        return 2
    seed = harness.seed_from_env()
    t0 = time.time()
    specs = mod.plan(tier, seed)
    timeout = getattr(mod, "SHARD_TIMEOUT", {"quick": 900, "thorough": 3600})[tier]
    nproc = getattr(mod, "NPROC", harness.NPROC)
    results = harness.run_shards(prop.lower(), specs, timeout=timeout, nproc=nproc)
    merged = harness.merge(results)
    extra_cov = None
    if hasattr(mod, "finalize"):
        extra_cov = mod.finalize(merged, tier, seed, results)
    min_reach = getattr(mod, "MIN_REACH", {}).get(tier, {})
    return harness.report(prop, tier, seed, merged, mod.RULE, getattr(mod, "ASSUMPTIONS", []),
                          min_reach, t0, extra_cov)


if __name__ == "__main__":
    sys.exit(main(sys.argv[1:]))
