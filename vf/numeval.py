"""One tree-walking numeric evaluator on mpmath (complex principal values) used for BOTH sides of every comparison
(original SymPy tree / tree returned by the library / AST produced by a parser), so conventions agree by construction.
Leaves take values from `env` (keyed by object, or by a key function); constructs without numeric meaning (undefined
functions, unevaluated derivatives/integrals of them) are mapped to a deterministic smooth hash of their evaluated
arguments, identically on both sides."""
from __future__ import annotations

import hashlib

import mpmath

mpmath.mp.dps = 40


class NotEvaluable(Exception):
    pass


def smooth_hash(key: str, args) -> "mpmath.mpc | mpmath.mpf":
    """deterministic smooth, non-symmetric function of the numeric args, distinct per key"""
    hd = hashlib.sha1(key.encode()).digest()
    a = [1 + (hd[i] % 7) for i in range(8)]
    acc = mpmath.mpf(a[0]) / 3
    for i, x in enumerate(args):
        acc = acc + mpmath.sin(x * (a[(i + 1) % 8] + i) / 5 + a[(i + 2) % 8]) * (i + 2) + x * mpmath.mpf(a[(i + 3) % 8]) / 11
    return acc


def to_mp(e):
    import sympy
    if e is sympy.S.NaN:
        return mpmath.nan
    if e is sympy.S.Infinity:
        return mpmath.inf
    if e is sympy.S.NegativeInfinity:
        return -mpmath.inf
    if e is sympy.S.ComplexInfinity:
        raise NotEvaluable("zoo")
    if e.is_Rational:
        return mpmath.mpf(int(e.p)) / int(e.q)
    if e.is_Float:
        return mpmath.mpf(e._mpf_)
    if e is sympy.S.ImaginaryUnit:
        return mpmath.mpc(0, 1)
    if e is sympy.S.Pi:
        return +mpmath.pi
    if e is sympy.S.Exp1:
        return +mpmath.e
    if isinstance(e, sympy.NumberSymbol):
        return mpmath.mpf(sympy.N(e, 45)._mpf_)
    raise NotEvaluable("number " + str(e))


FUNCS1 = {
    "sin": mpmath.sin, "cos": mpmath.cos, "tan": mpmath.tan, "cot": mpmath.cot, "sec": mpmath.sec, "csc": mpmath.csc,
    "asin": mpmath.asin, "acos": mpmath.acos, "atan": mpmath.atan, "acot": mpmath.acot, "asec": mpmath.asec, "acsc": mpmath.acsc,
    "sinh": mpmath.sinh, "cosh": mpmath.cosh, "tanh": mpmath.tanh, "coth": mpmath.coth, "sech": mpmath.sech, "csch": mpmath.csch,
    "asinh": mpmath.asinh, "acosh": mpmath.acosh, "atanh": mpmath.atanh, "acoth": mpmath.acoth,
    "exp": mpmath.exp, "Abs": abs, "sign": mpmath.sign, "re": mpmath.re, "im": mpmath.im, "conjugate": mpmath.conj,
    "arg": mpmath.arg, "floor": mpmath.floor, "ceiling": mpmath.ceil, "factorial": mpmath.factorial, "gamma": mpmath.gamma,
    "erf": mpmath.erf, "erfc": mpmath.erfc, "sqrt": mpmath.sqrt, "LambertW": mpmath.lambertw, "sinc": mpmath.sinc,
    "Heaviside": lambda x: mpmath.mpf(1) if x > 0 else (mpmath.mpf(0) if x < 0 else mpmath.mpf(1) / 2),
    "DiracDelta": lambda x: mpmath.mpf(0),
}


class Evaluator:
    def __init__(self, env=None, key=None, quantity="scale_factor", undef="hash"):
        """env: {object or key: value}; key: optional function mapping a leaf object to an env key;
        quantity: 'scale_factor' | 'si' | 'env' (must be in env)"""
        self.env = env or {}
        self.key = key
        self.quantity = quantity
        self.undef = undef

    def lookup(self, e):
        if e in self.env:
            return self.env[e]
        if self.key is not None:
            k = self.key(e)
            if k is not None and k in self.env:
                return self.env[k]
        return None

    def ev(self, e):  # pylint: disable=too-many-return-statements,too-many-branches
        import sympy
        from sympy.physics.units import Quantity as SymQuantity
        from sympy.core.function import AppliedUndef
        v = self.lookup(e)
        if v is not None:
            return v
        if isinstance(e, (int, float)):
            return mpmath.mpf(e)
        if e.is_Number or isinstance(e, sympy.NumberSymbol) or e is sympy.S.ImaginaryUnit:
            return to_mp(e)
        if isinstance(e, SymQuantity):
            if self.quantity == "scale_factor":
                return self.ev(sympy.sympify(e.scale_factor))
            if self.quantity == "si":
                from vf import units_ref
                return self.ev(sympy.sympify(units_ref.observed_si_value(e)))
            raise NotEvaluable("quantity not in env: " + str(e))
        if isinstance(e, sympy.Symbol):
            fac = getattr(e, "factor", None)
            if fac is not None and type(e).__mro__[1].__name__ == "Symbolic":
                return smooth_hash("Symbolic:" + type(e).__name__, [self.ev(fac)])
            raise NotEvaluable("symbol not in env: " + str(e))
        if isinstance(e, sympy.Add):
            return mpmath.fsum([self.ev(a) for a in e.args])
        if isinstance(e, sympy.Mul):
            r = mpmath.mpf(1)
            for a in e.args:
                r = r * self.ev(a)
            return r
        if isinstance(e, sympy.Pow):
            b, x = self.ev(e.base), self.ev(e.exp)
            try:
                if b == 0 and mpmath.re(x) < 0:
                    raise NotEvaluable("division by zero")
                return mpmath.power(b, x)
            except (ZeroDivisionError, OverflowError, ValueError):
                raise NotEvaluable("power undefined")
        name = type(e).__name__
        if isinstance(e, sympy.log):
            args = [self.ev(a) for a in e.args]
            try:
                if len(args) == 2:
                    return mpmath.log(args[0]) / mpmath.log(args[1])
                return mpmath.log(args[0])
            except (ValueError, ZeroDivisionError):
                raise NotEvaluable("log undefined")
        if isinstance(e, (sympy.Min, sympy.Max)):
            vals = [self.ev(a) for a in e.args]
            if any(isinstance(v, mpmath.mpc) and v.imag != 0 for v in vals) or any(mpmath.isnan(v) for v in vals):
                raise NotEvaluable("min/max of complex")
            vals = [mpmath.re(v) for v in vals]
            return min(vals) if isinstance(e, sympy.Min) else max(vals)
        if isinstance(e, sympy.atan2):
            return mpmath.atan2(mpmath.re(self.ev(e.args[0])), mpmath.re(self.ev(e.args[1])))
        if isinstance(e, sympy.Piecewise):
            for ex, cond in e.args:
                if self.cond(cond):
                    return self.ev(ex)
            raise NotEvaluable("no piecewise branch")
        if isinstance(e, AppliedUndef):
            fk = self.lookup(e.func)
            args = [self.ev(a) for a in e.args]
            if callable(fk):
                return fk(*args)
            k = fk if isinstance(fk, str) else (self.key(e.func) if self.key else None) or str(e.func)
            return smooth_hash("fn:" + str(k), args)
        if isinstance(e, sympy.Derivative):
            inner = e.expr
            if isinstance(inner, AppliedUndef):
                k = self.lookup(inner.func)
                k = k if isinstance(k, str) else (self.key(inner.func) if self.key else None) or str(inner.func)
                order = []
                for var, n in e.variable_count:
                    idx = [i for i, a in enumerate(inner.args) if a == var]
                    order.append((idx[0] if idx else str(var), int(n)))
                return smooth_hash(f"d:{k}:{order}", [self.ev(a) for a in inner.args])
            raise NotEvaluable("derivative of " + type(inner).__name__)
        if isinstance(e, sympy.Function) and name in FUNCS1 and len(e.args) == 1:
            try:
                return FUNCS1[name](self.ev(e.args[0]))
            except (ValueError, ZeroDivisionError, OverflowError):
                raise NotEvaluable(name + " undefined")
        raise NotEvaluable("node " + name)

    def cond(self, c):
        import sympy
        if c is sympy.true or c is True:
            return True
        if c is sympy.false or c is False:
            return False
        if isinstance(c, sympy.And):
            return all(self.cond(a) for a in c.args)
        if isinstance(c, sympy.Or):
            return any(self.cond(a) for a in c.args)
        if isinstance(c, sympy.Not):
            return not self.cond(c.args[0])
        if isinstance(c, sympy.core.relational.Relational):
            l, r = mpmath.re(self.ev(c.lhs)), mpmath.re(self.ev(c.rhs))
            op = c.rel_op
            return {"==": l == r, "!=": l != r, "<": l < r, "<=": l <= r, ">": l > r, ">=": l >= r}[op]
        raise NotEvaluable("condition " + type(c).__name__)


def close(a, b, rel=mpmath.mpf("1e-10"), abs_=mpmath.mpf("1e-30")):
    if mpmath.isnan(a) or mpmath.isnan(b):
        return mpmath.isnan(a) and mpmath.isnan(b)
    if mpmath.isinf(a) or mpmath.isinf(b):
        return a == b
    return abs(a - b) <= max(abs_, rel * max(abs(a), abs(b)))
