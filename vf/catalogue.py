"""Enumeration of the catalogue from the working tree and recovery of guard specifications by closure introspection."""
from __future__ import annotations

import importlib
import inspect
import os

from vf import harness

ROOTS = ("laws", "definitions", "conditions")


def module_names(repo: str | None = None) -> list[str]:
    repo = repo or harness.REPO
    out = []
    for root in ROOTS:
        base = os.path.join(repo, "symplyphysics", root)
        for dirpath, dirnames, filenames in os.walk(base):
            dirnames.sort()
            for fn in sorted(filenames):
                if fn.endswith(".py") and fn != "__init__.py":
                    rel = os.path.relpath(os.path.join(dirpath, fn), repo)[:-3]
                    out.append(rel.replace(os.sep, "."))
    return sorted(out)


def published_equations(mod) -> list[tuple[str, object]]:
    """public Equality/Relational attributes, and elements of public lists/tuples of them"""
    import sympy
    from sympy.core.relational import Relational
    out = []
    for k, v in vars(mod).items():
        if k.startswith("_"):
            continue
        if isinstance(v, Relational):
            out.append((k, v))
        elif isinstance(v, (list, tuple)) and v and all(isinstance(x, Relational) for x in v):
            for i, x in enumerate(v):
                out.append((f"{k}[{i}]", x))
    return out


def functions(mod) -> list[tuple[str, object]]:
    out = []
    for k, v in vars(mod).items():
        if k.startswith("_") or not callable(v) or not inspect.isfunction(v):
            continue
        if getattr(v, "__module__", None) != mod.__name__:
            continue
        out.append((k, v))
    return out


def guard_specs(func) -> dict:
    """walk the decorator chain; returns {'inputs': {name: spec}, 'output': spec|None, 'output_same': name|None,
    'inner': innermost function, 'layers': [kinds]}"""
    from sympy.physics.units import Dimension
    res = {"inputs": {}, "output": None, "output_same": None, "inner": func, "layers": []}
    f = func
    seen = 0
    while f is not None and seen < 10:
        seen += 1
        clo = getattr(f, "__closure__", None)
        code = getattr(f, "__code__", None)
        nxt = getattr(f, "__wrapped__", None)
        if clo and code and nxt is not None:
            cells = {}
            for name, cell in zip(code.co_freevars, clo):
                try:
                    cells[name] = cell.cell_contents
                except ValueError:
                    pass
            vals = [v for k, v in cells.items() if v is not nxt and not inspect.isfunction(v)]
            kind = None
            for v in vals:
                if isinstance(v, dict):
                    res["inputs"].update(v)
                    kind = "input"
                elif isinstance(v, str):
                    res["output_same"] = v
                    kind = "output_same"
                else:
                    res["output"] = v
                    kind = "output"
            res["layers"].append(kind)
        if nxt is None:
            break
        f = nxt
    res["inner"] = f
    return res


def spec_dimension(spec):
    """Dimension declared by a guard spec (Dimension | symbol-like with .dimension | tuple of them)"""
    if isinstance(spec, (list, tuple)):
        return [spec_dimension(s) for s in spec]
    return getattr(spec, "dimension", spec)


def import_module(name: str):
    return importlib.import_module(name)
