"""reader for the LaTeX subset emitted by symplyphysics' SymbolLatexPrinter.
Produces the same AST as parse_code (so ev_ast is shared)."""
import re
from vf.parse_code import ParseError

FUNCS = ["sin", "cos", "tan", "cot", "sec", "csc", "sinh", "cosh", "tanh", "coth", "exp", "log", "ln",
    "arcsin", "arccos", "arctan", "min", "max"]
OPNAME_MAP = {"asin": "asin", "acos": "acos", "atan": "atan", "asinh": "asinh", "acosh": "acosh",
    "atanh": "atanh", "acot": "acot"}
CONSTS = {"\\pi": "pi", "\\infty": "oo", "e": "E"}  # (e only where no symbol of the expression is displayed as e: names are tried first)


def check_balanced(s):
    """braces and \\left/\\right must match; returns None or an error string"""
    stack = []
    i = 0
    n = len(s)
    while i < n:
        if s.startswith("\\left", i) and not s[i + 5:i + 6].isalpha():
            stack.append("L")
            i += 5
            continue
        if s.startswith("\\right", i) and not s[i + 6:i + 7].isalpha():
            if not stack or stack[-1] != "L":
                return f"unmatched \\right at {i}"
            stack.pop()
            i += 6
            continue
        c = s[i]
        if c == "\\":
            i += 2
            continue
        if c == "{":
            stack.append("{")
        elif c == "}":
            if not stack or stack[-1] != "{":
                return f"unmatched }} at {i}"
            stack.pop()
        i += 1
    if stack:
        return f"unclosed {stack[-1]}"
    return None


class LP:

    def __init__(self, s, names, funcnames=(), choices=None):
        self.s = s
        self.i = 0
        # ambiguity-tolerant reading: where mathematical practice admits two readings (extent of a prefix operator) the
        # reader takes the next bit of `choices`; `nchoices` counts the ambiguous points met
        self.choices = choices if choices is not None else []
        self.nchoices = 0
        self.names = sorted(set(n for n in names if n), key=len, reverse=True)
        self.funcnames = sorted(set(funcnames), key=len, reverse=True)

    # --- low level
    def ws(self):
        s = self.s
        while self.i < len(s):
            if s[self.i].isspace():
                self.i += 1
            elif s.startswith("\\,", self.i) or s.startswith("\\;", self.i) or s.startswith("\\!", self.i) or s.startswith("\\:", self.i):
                self.i += 2
            elif s.startswith("\\quad", self.i):
                self.i += 5
            else:
                break

    def at(self, lit):
        self.ws()
        if not self.s.startswith(lit, self.i):
            return False
        if lit.startswith("\\") and lit[-1].isalpha():
            nxt = self.s[self.i + len(lit):self.i + len(lit) + 1]
            if nxt.isalpha():
                return False
        return True

    def eat(self, lit):
        if not self.at(lit):
            raise ParseError(f"expected {lit!r} at {self.i}: {self.s[self.i:self.i+25]!r}")
        self.i += len(lit)

    def eof(self):
        self.ws()
        return self.i >= len(self.s)

    def name_here(self, pool):
        self.ws()
        for nm in pool:
            if self.s.startswith(nm, self.i):
                end = self.i + len(nm)
                if nm[-1].isalpha() and nm.startswith("\\") and "{" not in nm and end < len(self.s) and self.s[end].isalpha() and re.search(r"\\[A-Za-z]+$", nm):
                    continue  # command continues
                return nm
        return None

    # --- grammar
    def equation(self):
        l = self.expr()
        if self.at("="):
            self.eat("=")
            r = self.expr()
            if not self.eof():
                raise ParseError(f"trailing {self.s[self.i:self.i+20]!r}")
            return ("eq", l, r)
        if not self.eof():
            raise ParseError(f"trailing {self.s[self.i:self.i+20]!r}")
        return l

    TERMINATORS = ("+", "-", "=", "}", "\\right", ")", ",", "&", "\\\\", "|", "]", "\\rangle", "\\end")

    def expr(self):
        self.ws()
        neg = False
        if self.at("-"):
            self.eat("-")
            neg = True
        node = self.term()
        if neg:
            if node[0] == "call" and node[1] == ("name", "Mod") and len(node) == 4:   # (not a bracketed one)
                node = ("call", ("name", "Mod"), [("neg", node[2][0]), node[2][1]])   # `- a \bmod b` is (-a) mod b
            else:
                node = ("neg", node)
        while True:
            if self.at("+"):
                self.eat("+")
                node = ("add", node, self.signed_term())
            elif self.at("-"):
                self.eat("-")
                node = ("add", node, ("neg", self.signed_term()))
            else:
                return node

    def signed_term(self):
        """a term, possibly with its own sign: `a + - b` and `a - - b` are ugly but unambiguous"""
        self.ws()
        if self.at("-"):
            self.eat("-")
            return ("neg", self.signed_term())
        return self.term()

    def choose(self):
        k = self.nchoices
        self.nchoices += 1
        return self.choices[k] if k < len(self.choices) else 0

    def rest_of_term(self):
        node = None
        while not self.term_end():
            if self.at("\\cdot"):
                self.eat("\\cdot")
                self.ws()
                continue
            f = self.factor()
            node = f if node is None else ("mul", node, f)
        if node is None:
            raise ParseError("empty operand")
        return node

    def term_end(self):
        if self.eof():
            return True
        return any(self.at(t) for t in self.TERMINATORS)

    def term(self):
        node = None
        while not self.term_end():
            if self.at("\\cdot"):
                self.eat("\\cdot")
                self.ws()
                if self.at("-"):
                    self.eat("-")
                    f = ("neg", self.factor())
                    node = ("mul", node, f)
                    continue
                continue
            if self.at("\\int"):
                f = self.integral()
            elif self.at("\\sum") or self.at("\\prod"):
                f = self.bigop()
            else:
                f = self.factor()
            node = f if node is None else ("mul", node, f)
            self.ws()
            while self.at("\\bmod"):
                # `a b \bmod c`: the product so far modulo the product that follows (mod binds looser than juxtaposition)
                self.eat("\\bmod")
                rhs = None
                while not self.term_end() and not self.at("\\bmod"):
                    g = self.factor()
                    rhs = g if rhs is None else ("mul", rhs, g)
                    self.ws()
                if rhs is None:
                    raise ParseError("empty right operand of bmod")
                node = ("call", ("name", "Mod"), [node[:3] if len(node) == 4 and node[0] == "call" else node, rhs], "bare")   # chained: ((a mod b) mod c)
        if node is None:
            raise ParseError(f"empty term at {self.i}: {self.s[self.i:self.i+20]!r}")
        return node

    def group(self):
        self.eat("{")
        e = self.expr()
        self.eat("}")
        return e

    def script(self):
        """after ^ or _ : {expr} or single token"""
        self.ws()
        if self.at("{"):
            return self.group()
        return self.base()

    def factor(self):
        b = self.base()
        while True:
            if self.at("^"):
                self.eat("^")
                e = self.script()
                b = ("pow", b, e)
            elif self.at("!"):
                self.eat("!")
                b = ("call", ("name", "factorial"), [b])
            else:
                return b

    def paren(self):
        """\\left( expr \\right) | ( expr ) ; returns list of comma separated exprs"""
        if self.at("\\left("):
            self.eat("\\left(")
            close = "\\right)"
        elif self.at("("):
            self.eat("(")
            close = ")"
        else:
            raise ParseError(f"expected ( at {self.i}: {self.s[self.i:self.i+20]!r}")
        items = [self.unbare(self.expr())]
        while self.at(","):
            self.eat(",")
            items.append(self.unbare(self.expr()))
        self.eat(close)
        return items

    @staticmethod
    def unbare(node):
        """a `\\bmod` expression inside brackets is a closed unit"""
        if isinstance(node, tuple) and len(node) == 4 and node[0] == "call" and node[3] == "bare":
            return node[:3]
        return node

    def funcarg(self):
        """argument of a named function: {\\left(..\\right)} | \\left(..\\right) | {x}"""
        self.ws()
        if self.at("{\\left("):
            self.eat("{")
            items = self.paren()
            self.eat("}")
            return items
        if self.at("\\left(") or self.at("("):
            return self.paren()
        if self.at("{"):
            return [self.group()]
        return [self.factor()]

    def derivative(self, m):
        # \frac{d^{n}}{d x^{n}} or \frac{\partial^{p}}{\partial x \partial y^{2}} followed by operand
        sym = m.group(1)
        self.i += m.end() - m.start()
        # now inside denominator
        vs = []
        while not self.at("}"):
            self.eat(sym)
            v = self.base()
            n = ("num", "1")
            if self.at("^"):
                self.eat("^")
                n = self.script()
            vs.append(("tuple", [v, n]))
        self.eat("}")
        # extent of the operator: the next factor (reading 0) or the rest of the term (reading 1)
        operand = self.factor() if self.choose() == 0 else self.rest_of_term()
        return ("call", ("name", "Derivative"), [operand] + vs)

    def integral(self):
        self.eat("\\int")
        lims = None
        if self.at("\\limits"):
            self.eat("\\limits")
        lo = hi = None
        if self.at("_"):
            self.eat("_")
            lo = self.script()
        if self.at("^"):
            self.eat("^")
            hi = self.script()
        # integrand up to "\, d<var>"
        m = re.search(r"\\,\s*d", self.s[self.i:])
        if not m:
            raise ParseError("integral without differential")
        sub = LP(self.s[self.i:self.i + m.start()], self.names, self.funcnames)
        integrand = sub.expr()
        if not sub.eof():
            raise ParseError("integrand trailing")
        self.i += m.end()
        var = self.base()
        lim = [var] + ([lo, hi] if lo is not None else [])
        return ("call", ("name", "Integral"), [integrand, ("tuple", lim)])

    def bigop(self):
        name = "Sum" if self.at("\\sum") else "Product"
        self.eat("\\sum" if name == "Sum" else "\\prod")
        self.eat("_")
        idx = self.script()
        # extent of the big operator: the rest of the term (reading 0) or the next factor only (reading 1)
        body = self.term() if self.choose() == 0 else self.factor()
        return ("call", ("name", name), [body, idx])

    DERIV = re.compile(r"\\frac\{(d|\\partial)(?:\^\{[^}]*\})?\}\{(?=\1[ \\a-zA-Z{])")

    def base(self):
        self.ws()
        s = self.s
        i = self.i
        m = self.DERIV.match(s, i)
        if m:
            return self.derivative(m)
        if self.at("\\frac"):
            self.eat("\\frac")
            n = self.group()
            d = self.group()
            return ("div", n, d)
        if self.at("\\sqrt"):
            self.eat("\\sqrt")
            if self.at("["):
                self.eat("[")
                k = self.expr()
                self.eat("]")
                x = self.group()
                return ("pow", x, ("div", ("num", "1"), k))
            return ("call", ("name", "sqrt"), [self.group()])
        if self.at("\\left(") or self.at("("):
            items = self.paren()
            if len(items) != 1:
                return ("tuple", items)
            return items[0]
        if self.at("\\left|"):
            self.eat("\\left|")
            e = self.group() if self.at("{") else self.expr()
            self.eat("\\right|")
            return ("call", ("name", "Abs"), [e])
        if self.at("|"):
            self.eat("|")
            e = self.expr()
            self.eat("|")
            return ("call", ("name", "Abs"), [e])
        if self.at("\\overline"):
            self.eat("\\overline")
            return ("call", ("name", "conjugate"), [self.group()])
        # undefined functions by display name
        fn = self.name_here(self.funcnames)
        nm = self.name_here(self.names)
        if fn is not None and (nm is None or len(fn) >= len(nm)):
            # f{\left(x \right)} or the power notation f^{2}{\left(x \right)}
            save = self.i
            self.i += len(fn)
            p = None
            if self.at("^"):
                self.eat("^")
                try:
                    p = self.script()
                except ParseError:
                    p = None
            if s.startswith("{\\left(", self.i):
                args = self.funcarg()
                node = ("call", ("name", "FN:" + fn), args)
                return ("pow", node, p) if p is not None else node
            self.i = save
        if nm is not None:
            self.i += len(nm)
            return ("name", nm)
        if self.at("\\operatorname"):
            self.eat("\\operatorname")
            self.eat("{")
            j = s.index("}", self.i)
            f = s[self.i:j]
            self.i = j + 1
            f = OPNAME_MAP.get(f, f)
            p = None
            if self.at("^"):
                self.eat("^")
                p = self.script()
            args = self.funcarg()
            node = ("call", ("name", f), args)
            return ("pow", node, p) if p is not None else node
        for f in sorted(FUNCS, key=len, reverse=True):
            if self.at("\\" + f):
                self.eat("\\" + f)
                sub = None
                p = None
                if self.at("_"):
                    self.eat("_")
                    sub = self.script()
                if self.at("^"):
                    self.eat("^")
                    p = self.script()
                args = self.funcarg()
                if f == "ln":
                    f = "log"
                if f.startswith("arc"):
                    f = "a" + f[3:]
                if f == "log" and sub is not None:
                    args = args + [sub]
                node = ("call", ("name", f), args)
                return ("pow", node, p) if p is not None else node
        for c, v in CONSTS.items():
            if self.at(c):
                self.eat(c)
                return ("name", v)
        m = re.compile(r"\d+\.?\d*(?:\s+\d+\.?\d*)*").match(s, self.i)
        if m:
            self.i = m.end()
            # TeX ignores blanks in math mode: "2 3" is typeset, and read, as the numeral 23 - not as a product
            digits = re.sub(r"\s+", "", m.group(0))
            if digits.count(".") > 1:
                raise ParseError(f"adjacent numerals run together into {digits!r}")
            return ("num", digits)
        if self.at("{"):
            # indexed: {m}_{i}
            g = self.group()
            if self.at("_"):
                self.eat("_")
                idx = self.script()
                return ("index", g, [idx])
            return g
        if self.at("i") and False:
            pass
        raise ParseError(f"cannot read at {self.i}: {s[self.i:self.i+25]!r}")


def parse_latex(s, names, funcnames=(), choices=None):
    return LP(s, names, funcnames, choices).equation()


def parse_latex_all(s, names, funcnames=(), max_points=4):
    """every combination of admissible readings (at most 2**max_points)"""
    import itertools
    first = LP(s, names, funcnames, [])
    trees = [first.equation()]
    k = min(first.nchoices, max_points)
    for bits in itertools.product((0, 1), repeat=k):
        if not any(bits):
            continue
        try:
            trees.append(LP(s, names, funcnames, list(bits)).equation())
        except ParseError:
            continue
    return trees
