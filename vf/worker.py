"""python -m vf.worker <check> <spec.json> <out.json>: run one shard of a check in a fresh interpreter."""
import importlib
import json
import sys

from vf import harness


def main() -> int:
    check, sp, op = sys.argv[1:4]
    with open(sp) as f:
        spec = json.load(f)
    mod = importlib.import_module(f"vf.checks.{check}")
    rec = harness.Rec()
    rec._out = op  # enables rec.checkpoint()
    try:
        if "_replay" in spec:
            mod.replay(spec["_replay"], rec)
        else:
            mod.work(spec, rec)
    except Exception:  # pylint: disable=broad-except
        rec.inconc("worker crashed: " + harness.short_tb().splitlines()[-1][:200],
                   {"shard": spec.get("_label"), "traceback": harness.short_tb()})
    with open(op, "w") as f:
        json.dump(rec.to_json(), f, default=str)
    return 0


if __name__ == "__main__":
    sys.exit(main())
