"""pytest plugin (-p vf.pytest_plugin): attaches the runtime monitors to the repository's own test run (xdist-safe).
Selected by VF_MONITORS (comma separated property ids); every worker writes its counters and violations to
$VF_EVENT_DIR/<pid>.json at session end.  Monitors record and never raise, so the observed run is not perturbed."""
from __future__ import annotations

import functools
import json
import os
import traceback
from fractions import Fraction as Fr

STATE = {"counts": {}, "violations": [], "samples": [], "notes": []}


def hit(k, n=1):
    STATE["counts"][k] = STATE["counts"].get(k, 0) + n


def violation(prop, key, what, case=None):
    if len(STATE["violations"]) < 200:
        STATE["violations"].append({"property": prop, "key": key, "what": what[:500], "case": case})


def sample(prop, obj):
    if sum(1 for s in STATE["samples"] if s.get("property") == prop) < 4:
        STATE["samples"].append(dict(obj, property=prop))


def safe(fn):
    @functools.wraps(fn)
    def w(*a, **k):
        try:
            return fn(*a, **k)
        except Exception:  # pylint: disable=broad-except
            hit("monitor_errors")
            if len(STATE["notes"]) < 10:
                STATE["notes"].append(traceback.format_exc()[-400:])
            return None
    return w


# ---------------- C08: every verdict of the equality oracle is re-judged ----------------
def attach_c08():
    import sympy
    from symplyphysics.core import approx
    from sympy.physics.units import Quantity as SymQuantity
    from vf import attach, units_ref

    def parts(q):
        sf = sympy.sympify(q.scale_factor)
        re_, im_ = sympy.N(sf, 30).as_real_imag()
        return Fr(str(sympy.nsimplify(re_, rational=True))), Fr(str(sympy.nsimplify(im_, rational=True)))

    @safe
    def judge(name, lhs, rhs, kw, outcome):
        from symplyphysics import Quantity
        rel, abs_ = kw.get("relative_tolerance"), kw.get("absolute_tolerance")
        dimension = kw.get("dimension")
        hit("C08_calls")
        hit("C08_" + name)
        if not isinstance(rhs, SymQuantity):
            if dimension is None:
                rq = Quantity(rhs)
            else:
                rq = Quantity(rhs, dimension=dimension)
        else:
            rq = rhs
        lq = lhs if isinstance(lhs, SymQuantity) else Quantity(lhs)
        va, vb = units_ref.observed_vector(lq.dimension), units_ref.observed_vector(rq.dimension)
        a, b = parts(lq), parts(rq)
        zero_or_any = lambda q: sympy.sympify(q.scale_factor).is_zero or sympy.sympify(q.scale_factor) in (sympy.oo, -sympy.oo, sympy.nan)
        dims_ok = va == vb or zero_or_any(lq) or zero_or_any(rq)
        relv = Fr(1, 1000) if rel is None else Fr(rel)
        must_fail = not dims_ok
        must_pass = dims_ok
        for x, y in zip(a, b):
            d, m = abs(x - y), max(abs(x), abs(y))
            upper = max(Fr(abs_) if abs_ is not None else Fr(0), relv * m)
            if d > upper * (1 + Fr(1, 10**6)):
                must_fail = True
            lower = Fr(abs_) if abs_ is not None else relv * m
            if not (d <= lower * (1 - Fr(1, 10**6)) or d == 0):
                must_pass = False
        passed = outcome[0] == "return" and outcome[1] is not False
        case = {"api": name, "lhs": str(lhs)[:80], "rhs": str(rhs)[:80], "kw": {k: str(v) for k, v in kw.items()}, "outcome": outcome[0]}
        if must_fail and passed:
            violation("C08", f"suite:accepts-out-of-tolerance:{name}", f"{name} accepted a pair the reference predicate rejects: {case}", case)
        elif must_pass and not must_fail and not passed:
            violation("C08", f"suite:rejects-in-tolerance:{name}", f"{name} rejected ({outcome}) a pair the reference predicate accepts: {case}", case)
        else:
            hit("C08_agree")
            sample("C08", case)

    def wrap(name, fn):
        @functools.wraps(fn)
        def w(lhs, rhs, **kw):
            try:
                r = fn(lhs, rhs, **kw)
            except BaseException as e:
                judge(name, lhs, rhs, kw, (type(e).__name__, str(e)[:60]))
                raise
            judge(name, lhs, rhs, kw, ("return", r))
            return r
        return w
    for nm in ("assert_equal", "approx_equal_quantities"):
        orig = getattr(approx, nm)
        new = wrap(nm, orig)
        setattr(approx, nm, new)
        attach.rebind(orig, new)


# ---------------- C04: every assert_equivalent_dimension call is compared with the reference gate ----------------
def attach_c04():
    import sympy
    from sympy.physics.units import Dimension, Quantity as SymQuantity
    from symplyphysics.core.dimensions import dimensions as D
    from symplyphysics.core.errors import UnitsError
    from vf import attach, units_ref
    from vf.checks import c05
    orig = D.assert_equivalent_dimension

    @safe
    def judge(arg, expected, outcome):
        hit("C04_calls")
        # declared side
        if isinstance(expected, Dimension):
            if type(expected).__name__ == "AnyDimension":
                return
            dv = units_ref.observed_vector(expected)
        else:
            try:
                ev, dv = c05.RefEval({}).ev(sympy.sympify(expected))
            except Exception:  # pylint: disable=broad-except
                hit("C04_reference_undecided")
                return
            if c05.anyval(ev):
                return
        if not isinstance(dv, tuple) or (dv and isinstance(dv[0], str)):
            hit("C04_reference_undecided")
            return
        if isinstance(arg, Dimension):
            if type(arg).__name__ == "AnyDimension":
                return
            av, any_ = units_ref.observed_vector(arg), False
        else:
            try:
                val, av = c05.RefEval(LeafTrust()).ev(sympy.sympify(arg))
                any_ = c05.anyval(val)
            except (c05.Refuse, c05.Ambiguous, Exception):  # pylint: disable=broad-except
                hit("C04_reference_undecided")
                return
        if not isinstance(av, tuple) or (av and isinstance(av[0], str)):
            hit("C04_reference_undecided")
            return
        if any_ or units_ref.vec_close(av, dv):
            want = "ok"
        elif units_ref.vec_close(av, units_ref.ZERO):
            want = "TypeError"
        else:
            want = "UnitsError"
        if outcome != want:
            violation("C04", f"suite:gate:{want}->{outcome}", f"assert_equivalent_dimension({str(arg)[:80]}, expected {str(expected)[:60]}) -> {outcome}, reference gate {want}",
                      {"arg": str(arg)[:100], "expected": str(expected)[:100]})
        else:
            hit("C04_agree")
            hit("C04_" + want)

    class LeafTrust(dict):
        """library quantities are trusted leaves: (scale factor under the ratio convention, exponent vector of their dimension)"""

        def __contains__(self, q):
            return isinstance(q, SymQuantity) and hasattr(q, "dimension")

        def __getitem__(self, q):
            import mpmath
            v = units_ref.observed_vector(q.dimension)
            if not isinstance(v, tuple) or (v and isinstance(v[0], str)):
                raise c05.Ambiguous("leaf dimension")
            val = c05.sym2mp(units_ref.observed_si_value(q))
            if val is None:
                raise c05.Ambiguous("zoo")
            return val, v

    def w(arg, param_name, func_name, expected_unit):
        try:
            r = orig(arg, param_name, func_name, expected_unit)
        except UnitsError:
            judge(arg, expected_unit, "UnitsError")
            raise
        except TypeError:
            judge(arg, expected_unit, "TypeError")
            raise
        judge(arg, expected_unit, "ok")
        return r
    D.assert_equivalent_dimension = w
    attach.rebind(orig, w)


# ---------------- C07 (icontract): convert_to returns n with n * unit == value ----------------
def attach_c07():
    import sympy
    import symplyphysics.core.convert as C
    from vf import attach
    orig = C.convert_to

    def holds(value, target_unit, result):
        try:
            from symplyphysics import Quantity
            from sympy.physics.units import Quantity as SymQuantity
            hit("C07_calls")
            v = value if isinstance(value, SymQuantity) else Quantity(value)
            t = target_unit if isinstance(target_unit, SymQuantity) else Quantity(target_unit)
            lhs = sympy.N(sympy.sympify(result) * t.scale_factor, 20)
            rhs = sympy.N(v.scale_factor, 20)
            if lhs.is_number and rhs.is_number and lhs.is_finite and rhs.is_finite:
                if abs(complex(lhs) - complex(rhs)) > 1e-12 * max(abs(complex(lhs)), abs(complex(rhs)), 1e-300):
                    violation("C07", "suite:convert_to-definition", f"convert_to({str(value)[:60]}, {str(target_unit)[:60]}) = {result}: n * unit != value", None)
                else:
                    hit("C07_agree")
        except Exception:  # pylint: disable=broad-except
            hit("monitor_errors")
        return True
    try:
        import icontract

        class PostBroken(Exception):
            pass
        new = icontract.ensure(holds, error=PostBroken)(orig)
        STATE["notes"].append("C07: icontract.ensure attached to convert_to")
    except Exception:  # pylint: disable=broad-except
        @functools.wraps(orig)
        def new(value, target_unit):
            r = orig(value, target_unit)
            holds(value, target_unit, r)
            return r
        STATE["notes"].append("C07: icontract unavailable, plain recorder attached")
    C.convert_to = new
    attach.rebind(orig, new)


# ---------------- C10 (icontract): identities on every call of the arithmetic functions ----------------
def attach_c10():
    import sympy
    from symplyphysics.core.vectors import arithmetics as A
    from vf import attach

    def zero(e):
        e = sympy.sympify(e)
        try:
            if e.is_number:
                return abs(complex(sympy.N(e, 20))) < 1e-9
            return sympy.simplify(sympy.expand(e)) == 0
        except Exception:  # pylint: disable=broad-except
            return None
    orig_dot, orig_cross, orig_mag, orig_add = A.dot_vectors, A.cross_cartesian_vectors, A.vector_magnitude, A.add_cartesian_vectors

    def cross_post(vector_left, vector_right, result):
        try:
            hit("C10_cross_calls")
            a, b = vector_left, vector_right
            if len(a.components) + len(b.components) > 6:
                return True
            checks = [orig_dot(result, a), orig_dot(result, b),
                      orig_dot(result, result) - (orig_dot(a, a) * orig_dot(b, b) - orig_dot(a, b) ** 2)]
            for nm, c in zip(("orthogonal-left", "orthogonal-right", "lagrange"), checks):
                z = zero(c)
                if z is False:
                    violation("C10", f"suite:cross:{nm}", f"cross({a.components}, {b.components}) = {result.components}: {nm} fails", None)
                elif z:
                    hit("C10_agree")
                else:
                    hit("C10_undecided")
        except Exception:  # pylint: disable=broad-except
            hit("monitor_errors")
        return True

    def dot_post(vector_left, vector_right, result):
        try:
            hit("C10_dot_calls")
            z = zero(result - orig_dot(vector_right, vector_left))
            if z is False:
                violation("C10", "suite:dot:symmetric", f"dot({vector_left.components}, {vector_right.components}) is not symmetric", None)
            elif z:
                hit("C10_agree")
        except Exception:  # pylint: disable=broad-except
            hit("monitor_errors")
        return True

    def mag_post(vector_, result):
        try:
            hit("C10_magnitude_calls")
            z = zero(sympy.sympify(result) ** 2 - orig_dot(vector_, vector_))
            if z is False:
                violation("C10", "suite:magnitude", f"|{vector_.components}|^2 != self dot", None)
            elif z:
                hit("C10_agree")
        except Exception:  # pylint: disable=broad-except
            hit("monitor_errors")
        return True
    try:
        import icontract

        class PostBroken(Exception):
            pass
        new_cross = icontract.ensure(cross_post, error=PostBroken)(orig_cross)
        new_dot = icontract.ensure(dot_post, error=PostBroken)(orig_dot)
        new_mag = icontract.ensure(mag_post, error=PostBroken)(orig_mag)
        STATE["notes"].append("C10: icontract.ensure attached to cross/dot/magnitude")
    except Exception:  # pylint: disable=broad-except
        def mk(orig, post, names):
            @functools.wraps(orig)
            def w(*a):
                r = orig(*a)
                post(*a, r)
                return r
            return w
        new_cross, new_dot, new_mag = mk(orig_cross, cross_post, 2), mk(orig_dot, dot_post, 2), mk(orig_mag, mag_post, 1)
        STATE["notes"].append("C10: icontract unavailable, plain recorders attached")
    for o, n, nm in ((orig_cross, new_cross, "cross_cartesian_vectors"), (orig_dot, new_dot, "dot_vectors"), (orig_mag, new_mag, "vector_magnitude")):
        setattr(A, nm, n)
        attach.rebind(o, n)


# ---------------- C05: every Quantity() built by the suite is re-evaluated by the reference ----------------
def attach_c05():
    import sympy
    import mpmath
    from sympy.physics.units import Quantity as SymQuantity
    from symplyphysics.core.symbols import quantities as Qm
    from vf import units_ref
    from vf.checks import c05
    orig_init = Qm.Quantity.__init__

    class LeafTrust(dict):
        def __contains__(self, q):
            return isinstance(q, Qm.Quantity)

        def __getitem__(self, q):
            v = units_ref.observed_vector(q.dimension)
            if not isinstance(v, tuple) or (v and isinstance(v[0], str)):
                raise c05.Ambiguous("leaf dimension")
            val = c05.sym2mp(units_ref.observed_si_value(q))
            if val is None:
                raise c05.Ambiguous("zoo")
            return val, v

    @safe
    def judge(self, expr, dimension, err):
        hit("C05_calls")
        e = sympy.sympify(expr)
        if not e.args and not isinstance(e, SymQuantity):
            hit("C05_trivial")
            return
        try:
            rv, rk = c05.RefEval(LeafTrust()).ev(e), None
        except c05.Refuse as x:
            rv, rk = None, x.kind
        except c05.Ambiguous:
            hit("C05_reference_undecided")
            return
        if err is not None:
            if rv is not None:
                violation("C05", f"suite:refuses:{type(err).__name__}", f"Quantity({str(e)[:120]}) refused ({type(err).__name__}: {str(err)[:80]}) but the reference accepts", None)
            else:
                hit("C05_agree")
            return
        if rv is None:
            violation("C05", f"suite:accepts:{rk}", f"Quantity({str(e)[:120]}) accepted but the reference refuses ({rk})", None)
            return
        v, vec = rv
        try:  # double-precision instability filter (cancellation in the test's own numbers)
            with mpmath.workdps(16):
                v16 = c05.RefEval(LeafTrust()).ev(e)[0]
            if mpmath.isfinite(v) and mpmath.isfinite(v16) and abs(v - v16) > mpmath.mpf("1e-12") * max(abs(v), abs(v16)):
                hit("C05_reference_undecided")
                return
        except Exception:  # pylint: disable=broad-except
            pass
        lv = c05.sym2mp(units_ref.observed_si_value(self)) if dimension is None else None
        if dimension is None and lv is not None and mpmath.isfinite(v) and mpmath.isfinite(lv):
            if (v == 0) != (lv == 0):
                hit("C05_reference_undecided")  # a sum of the test's 15-digit floats cancels on one side only
                return
            if abs(v - lv) > mpmath.mpf("1e-6") * max(abs(v), abs(lv)):   # the tests feed 15-digit floats through sums that cancel
                violation("C05", "suite:value", f"Quantity({str(e)[:120]}): SI value {lv} vs reference {v}", None)
                return
            if v != 0:
                ov = units_ref.observed_vector(self.dimension)
                if isinstance(ov, tuple) and not (ov and isinstance(ov[0], str)) and not units_ref.vec_close(ov, vec):
                    violation("C05", "suite:dimension", f"Quantity({str(e)[:120]}): dimension {self.dimension} vs reference {units_ref.vfmt(vec)}", None)
                    return
        hit("C05_agree")

    def init(self, expr=sympy.S.One, *, display_symbol=None, display_latex=None, dimension=None):
        try:
            r = orig_init(self, expr, display_symbol=display_symbol, display_latex=display_latex, dimension=dimension)
        except BaseException as e:
            judge(self, expr, dimension, e)
            raise
        judge(self, expr, dimension, None)
        return r
    Qm.Quantity.__init__ = init


# ---------------- C09: id trace during the repository's test run ----------------
def attach_c09():
    from symplyphysics.core.symbols import id_generator
    from vf import attach
    orig = id_generator.next_id
    last = dict(getattr(id_generator, "_ids", {}) or {})
    issued = set()

    def w(base=""):
        v = orig(base)
        hit("C09_ids_traced")
        if v <= last.get(base, 0):
            violation("C09", f"suite:id-trace:not-increasing:{base or 'none'}", f"next_id({base!r}) returned {v} after {last.get(base, 0)}", None)
        if (base, v) in issued:
            violation("C09", f"suite:id-trace:reissued:{base or 'none'}", f"id {base}{v} issued twice", None)
        issued.add((base, v))
        last[base] = v
        return v
    id_generator.next_id = w
    attach.rebind(orig, w)


ATTACH = {"C09": attach_c09, "C04": attach_c04, "C05": attach_c05, "C07": attach_c07, "C08": attach_c08, "C10": attach_c10}


def pytest_configure(config):
    import symplyphysics  # noqa  (monitors must be in place before the test modules bind names)
    for prop in [p for p in os.environ.get("VF_MONITORS", "").split(",") if p]:
        try:
            ATTACH[prop]()
            hit("attached_" + prop)
        except Exception:  # pylint: disable=broad-except
            STATE["notes"].append(f"attaching {prop} failed: " + traceback.format_exc()[-300:])


def pytest_sessionfinish(session, exitstatus):
    d = os.environ.get("VF_EVENT_DIR")
    if not d:
        return
    os.makedirs(d, exist_ok=True)
    with open(os.path.join(d, f"{os.getpid()}.json"), "w") as f:
        json.dump(STATE, f, default=str)
