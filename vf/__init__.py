"""Runtime-monitoring machinery for symplyphysics (see /verif/DESIGN.md)."""
import os
import sys

_HOME = os.environ.get("VERIF_HOME") or os.path.dirname(os.path.dirname(os.path.abspath(__file__)))
_deps = os.path.join(_HOME, ".deps")
# third-party monitor libraries go *after* the interpreter's own site-packages so they never shadow them
if os.path.isdir(_deps) and _deps not in sys.path:
    sys.path.append(_deps)
