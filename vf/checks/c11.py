"""C11 - changing coordinate system preserves the geometric vector and scalar field.
Workload: rebase of random vectors / scalar fields / points between the Cartesian and the cylindrical or spherical system.
Monitor: components after rebase, dot/magnitude/scale values, field values, errors.  Oracle: own numeric transforms."""
from __future__ import annotations

import math

from vf import geom_ref as G
from vf import harness

RULE = ("random Cartesian triples away from the singular sets (rho>0.1, polar angle in (0.1, pi-0.1)) and random curvilinear "
        "triples in the canonical ranges, vectors with 0..3 components, ints/rationals/floats and symbolic positive components; "
        "per vector: rebase equals the own transform, there-and-back is the identity, dot/magnitude/scale (negative scalars "
        "included) computed in the curvilinear system equal the Cartesian values, project_vector then magnitude; scalar fields "
        "(random polynomial x trig in all three coordinates) take the same value at the same physical point after rebase in "
        "both directions; refusals: cylindrical<->spherical rebase (vectors, fields), points of another kind. non-trivial = "
        "vector not on a coordinate axis / field depends on >=2 coordinates; distinct = distinct case.")
RULE = RULE + ' Also: a Cartesian system rotated (random angle, any of the three axes) against the Cartesian system derived from a cylindrical / spherical base system: curvilinear vectors re-expressed in it directly and via the unrotated system equal the own rotated components, dot products agree, the way back via the unrotated system is the identity.'
RULE = RULE + ' Also: Cartesian float vectors with an exact floating-point zero as second or third component.'
RULE = RULE + ' Also: cylindrical / spherical vectors with one and two components: dot and magnitude in the system equal those after re-expression in Cartesian coordinates.'
ASSUMPTIONS = ["vf/geom_ref.py transforms (from the definitions; spherical = (r, azimuth, polar) in this core)"]
N = {"quick": dict(vectors=320, fields=64), "thorough": dict(vectors=4800, fields=640)}
MIN_REACH = {"quick": {"rebase_to_cyl": 250, "rebase_to_sph": 250, "roundtrip": 500, "dot_magnitude": 500, "scale": 400,
                       "from_curvilinear": 400, "field_value": 300, "refusal": 30, "symbolic": 20, "short_curvilinear_vector": 600, "rotated_cartesian": 100, "float_zero_component": 150, "field_value_short_point": 100},
             "thorough": {"rebase_to_cyl": 4000, "roundtrip": 8000, "field_value": 3000}}
SHARD_TIMEOUT = {"quick": 600, "thorough": 3000}


def plan(tier, seed):
    n = N[tier]
    return [{"_label": f"shard{i}", "seed": seed, "shard": i, "vectors": n["vectors"] // 16, "fields": n["fields"] // 16} for i in range(16)]


def fl(x):
    import sympy
    return float(sympy.N(x, 30))


def comps(v, n=3):
    c = [fl(x) for x in v.components]
    return c + [0.0] * (n - len(c))


class Sys:
    def __init__(self):
        from symplyphysics import CoordinateSystem, coordinates_transform
        S = CoordinateSystem.System
        self.S = S
        self.C = CoordinateSystem(S.CARTESIAN)
        self.cyl = coordinates_transform(self.C, S.CYLINDRICAL)
        self.sph = coordinates_transform(self.C, S.SPHERICAL)


def rand_cart(r):
    import sympy
    while True:
        kind = r.random()
        if kind < 0.4:
            p = [sympy.Integer(r.randint(-9, 9)) for _ in range(3)]
        elif kind < 0.7:
            p = [sympy.Rational(r.randint(-40, 40), r.randint(1, 7)) for _ in range(3)]
        else:
            p = [sympy.Float(round(r.uniform(-6, 6), 3)) for _ in range(3)]
        x, y, z = [float(c) for c in p]
        rho = math.hypot(x, y)
        rr = math.sqrt(x * x + y * y + z * z)
        if rho > 0.1 and 0.1 < math.acos(z / rr) < math.pi - 0.1 and abs(abs(math.atan2(y, x)) - math.pi) > 0.05:
            return p


def vector_case(r, sy, rec, idx):
    import sympy
    from symplyphysics import Vector, dot_vectors, vector_magnitude, scale_vector
    from symplyphysics.core.vectors.arithmetics import project_vector
    p = rand_cart(r)
    q = rand_cart(r)
    n = r.choice([3, 3, 3, 2, 1])
    case = {"a": [str(c) for c in p], "b": [str(c) for c in q], "components": n}
    pa = [float(c) for c in p[:n]] + [0.0] * (3 - n)
    if n < 3 and (math.hypot(pa[0], pa[1]) < 0.1):
        return
    if n < 3:
        # z = 0: polar angle pi/2 (fine), keep
        pass
    va = Vector(p[:n], sy.C)
    vb = Vector(q, sy.C)
    pb = [float(c) for c in q]
    rec.case(case, nontrivial=sum(1 for c in pa if c != 0) >= 2)
    for name, system, fwd, back in (("cyl", sy.cyl, G.cart_to_cyl, G.cyl_to_cart), ("sph", sy.sph, G.cart_to_sph, G.sph_to_cart)):
        if name == "sph" and n < 3 and False:
            continue
        try:
            wa = va.rebase(system)
            wb = vb.rebase(system)
        except Exception as x:  # pylint: disable=broad-except
            rec.violation(f"rebase-raises:{name}:{type(x).__name__}", f"rebase of {case['a'][:n]} to {name} raised {type(x).__name__}: {str(x)[:100]}", case)
            continue
        rec.hit("rebase_to_" + name)
        got = comps(wa)
        want = fwd(*pa)
        ok = G.close(got[0], want[0]) and G.angle_close(got[1], want[1]) and (G.close(got[2], want[2]) if name == "cyl" else G.angle_close(got[2], want[2]))
        if not ok:
            rec.violation(f"rebase-value:cart->{name}", f"Vector({case['a'][:n]}).rebase({name}) = {got}, own transform {want}", case)
            continue
        # there and back
        back_v = comps(wa.rebase(sy.C))
        rec.hit("roundtrip")
        if not all(G.close(x, y) for x, y in zip(back_v, pa)):
            rec.violation(f"roundtrip:cart->{name}->cart", f"{case['a'][:n]} -> {name} -> cartesian = {back_v}", case)
            continue
        # dot / magnitude in the curvilinear system
        rec.hit("dot_magnitude")
        d = fl(dot_vectors(wa, wb))
        if not G.close(d, G.dot3(pa, pb), 1e-8):
            rec.violation(f"dot:{name}", f"dot in {name} = {d}, Cartesian {G.dot3(pa, pb)} for {case}", case)
            continue
        m = fl(vector_magnitude(wa))
        if not G.close(m, G.norm3(pa), 1e-8):
            rec.violation(f"magnitude:{name}", f"magnitude in {name} = {m}, Cartesian {G.norm3(pa)} for {case}", case)
            continue
        # scaling commutes with rebase (negative and fractional scalars)
        for k in (sympy.Rational(r.randint(1, 9), r.randint(1, 4)), -sympy.Integer(r.randint(1, 5)), sympy.Float(-0.5)):
            rec.hit("scale")
            sv = scale_vector(k, wa)
            got_s = comps(sv.rebase(sy.C))
            want_s = [float(k) * c for c in pa]
            if not all(G.close(x, y, 1e-8) for x, y in zip(got_s, want_s)):
                rec.violation(f"scale:{name}", f"scale_vector({k}, v_{name}) re-expressed = {got_s}, expected {want_s}", dict(case, k=str(k)))
                break
            ms = fl(vector_magnitude(sv))
            if not G.close(ms, abs(float(k)) * G.norm3(pa), 1e-8):
                rec.violation(f"magnitude-after-scale:{name}", f"|scale_vector({k}, v_{name})| = {ms}, expected {abs(float(k)) * G.norm3(pa)}", dict(case, k=str(k)))
                break
        # projection computed in the curvilinear system
        try:
            pr = project_vector(wa, wb)
            got_p = comps(pr.rebase(sy.C))
            f = G.dot3(pa, pb) / G.dot3(pb, pb)
            want_p = [f * c for c in pb]
            rec.hit("projection")
            if not all(G.close(x, y, 1e-7) for x, y in zip(got_p, want_p)):
                rec.violation(f"projection:{name}", f"project_vector in {name} re-expressed = {got_p}, expected {want_p}", case)
            elif not G.close(fl(vector_magnitude(pr)), G.norm3(want_p), 1e-7):
                rec.violation(f"magnitude-of-projection:{name}", f"|project_vector| in {name} = {fl(vector_magnitude(pr))}, expected {G.norm3(want_p)}", case)
        except ZeroDivisionError:
            pass
    if len(rec.samples) < 3:
        rec.sample(case)


def curvilinear_case(r, sy, rec):
    import sympy
    from symplyphysics import Vector
    rho = sympy.Rational(r.randint(2, 60), 10)
    az = sympy.Rational(r.randint(-30, 30), 10)
    z = sympy.Rational(r.randint(-50, 50), 10)
    polar = sympy.Rational(r.randint(2, 29), 10)
    for name, system, trip, back, fwd in (("cyl", sy.cyl, (rho, az, z), G.cyl_to_cart, G.cart_to_cyl), ("sph", sy.sph, (rho, az, polar), G.sph_to_cart, G.cart_to_sph)):
        case = {"system": name, "triple": [str(c) for c in trip]}
        rec.case(case)
        rec.hit("from_curvilinear")
        v = Vector(list(trip), system)
        got = comps(v.rebase(sy.C))
        want = back(*[float(c) for c in trip])
        if not all(G.close(x, y) for x, y in zip(got, want)):
            rec.violation(f"rebase-value:{name}->cart", f"Vector({case['triple']}, {name}).rebase(cartesian) = {got}, own transform {want}", case)
            continue
        rt = comps(v.rebase(sy.C).rebase(system))
        t = [float(c) for c in trip]
        ok = G.close(rt[0], t[0]) and G.angle_close(rt[1], t[1]) and (G.close(rt[2], t[2]) if name == "cyl" else G.angle_close(rt[2], t[2]))
        if not ok:
            rec.violation(f"roundtrip:{name}->cart->{name}", f"{case['triple']} -> cartesian -> {name} = {rt}", case)
            continue
        # vectors given with fewer than three components: what is computed in the curvilinear system (dot, magnitude) must
        # equal what is computed after re-expression in Cartesian coordinates (only the forward direction: the padded
        # vector may lie on the polar axis, where the way back is singular)
        from symplyphysics import dot_vectors, vector_magnitude
        other = Vector([rho + 1, az / 2 + sympy.Rational(1, 5), z if name == "cyl" else polar / 2 + sympy.Rational(1, 5)], system)
        other_c = other.rebase(sy.C)
        for k in (1, 2):
            short = Vector(list(trip[:k]), system)
            rec.hit("short_curvilinear_vector")
            sc = dict(case, components=k)
            try:
                short_c = short.rebase(sy.C)
                d_sys, d_cart = fl(dot_vectors(short, other)), fl(dot_vectors(short_c, other_c))
                m_sys, m_cart = fl(vector_magnitude(short)), fl(vector_magnitude(short_c))
            except Exception as x:  # pylint: disable=broad-except
                rec.violation(f"short-vector-raises:{name}:{type(x).__name__}", f"{k}-component {name} vector {case['triple'][:k]} raised {type(x).__name__}: {str(x)[:100]}", sc)
                continue
            if not G.close(d_sys, d_cart, 1e-8):
                rec.violation(f"dot:{name}:short", f"dot of the {k}-component {name} vector {case['triple'][:k]} with {other.components} is {d_sys} in {name} but {d_cart} after re-expression in Cartesian coordinates", sc)
            elif not G.close(m_sys, m_cart, 1e-8):
                rec.violation(f"magnitude:{name}:short", f"magnitude of the {k}-component {name} vector {case['triple'][:k]} is {m_sys} in {name} but {m_cart} after re-expression in Cartesian coordinates", sc)


def _rot(c, th, axis):
    """components, in a frame rotated by th about coordinate axis `axis`, of the fixed vector with components c"""
    i, j, k = axis, (axis + 1) % 3, (axis + 2) % 3
    out = [0.0, 0.0, 0.0]
    out[i] = c[i]
    out[j] = c[j] * math.cos(th) + c[k] * math.sin(th)
    out[k] = -c[j] * math.sin(th) + c[k] * math.cos(th)
    return out


def rotated_case(r, rec):
    """Systems derived the other way round: a curvilinear base system, the Cartesian system derived from it and a Cartesian
    system rotated against that one.  Re-expressing a curvilinear vector in the rotated Cartesian system must give the
    rotated components (own reference), directly and via the unrotated system, dot products must survive, and the way
    back via the unrotated system is the identity.  The direct way back (rotated Cartesian -> curvilinear) is a known
    finding of the pinned tree (the transformation table is applied in the rotated frame)."""
    import sympy
    from symplyphysics import CoordinateSystem, Vector, coordinates_transform, dot_vectors
    from symplyphysics.core.coordinate_systems.coordinate_systems import coordinates_rotate
    S = CoordinateSystem.System
    for name, kind, back in (("cyl", S.CYLINDRICAL, G.cyl_to_cart), ("sph", S.SPHERICAL, G.sph_to_cart)):
        base = CoordinateSystem(kind)
        cart = coordinates_transform(base, S.CARTESIAN)
        th = sympy.Rational(r.choice([-1, 1]) * r.randint(2, 30), 10)
        axis = r.randrange(3)
        rot = coordinates_rotate(cart, th, (cart.coord_system.i, cart.coord_system.j, cart.coord_system.k)[axis])
        trips = []
        for _ in range(2):
            trips.append([sympy.Rational(r.randint(2, 60), 10), sympy.Rational(r.randint(-30, 30), 10),
                          sympy.Rational(r.randint(-50, 50), 10) if name == "cyl" else sympy.Rational(r.randint(2, 29), 10)])
        case = {"system": name, "rotation": str(th), "axis": axis, "triples": [[str(c) for c in t] for t in trips]}
        rec.case(case)
        rec.hit("rotated_cartesian")
        try:
            v, w = (Vector(list(t), base) for t in trips)
            cv, cw = (back(*[float(c) for c in t]) for t in trips)
            want = _rot(cv, float(th), axis)
            direct = comps(v.rebase(rot))
            two_step = comps(v.rebase(cart).rebase(rot))
            if not all(G.close(a, b, 1e-9) for a, b in zip(direct, want)):
                rec.violation(f"rebase-value:{name}->rotated-cart", f"Vector({case['triples'][0]}, {name}).rebase(Cartesian system rotated by {th} about axis {axis}) = {direct}, own transform {want}", case)
                continue
            if not all(G.close(a, b, 1e-9) for a, b in zip(two_step, want)):
                rec.violation(f"rebase-value:{name}->cart->rotated-cart", f"{case['triples'][0]} via the unrotated system = {two_step}, own transform {want}", case)
                continue
            d = fl(dot_vectors(v.rebase(rot), w.rebase(rot)))
            if not G.close(d, G.dot3(cv, cw), 1e-8) or not G.close(fl(dot_vectors(v, w)), G.dot3(cv, cw), 1e-8):
                rec.violation(f"dot:{name}:rotated-cart", f"dot after re-expression in the rotated Cartesian system = {d}, in {name} = {fl(dot_vectors(v, w))}, own {G.dot3(cv, cw)}", case)
                continue
            rt = comps(v.rebase(rot).rebase(cart).rebase(base))
            t = [float(c) for c in trips[0]]
            ok = G.close(rt[0], t[0]) and G.angle_close(rt[1], t[1]) and (G.close(rt[2], t[2]) if name == "cyl" else G.angle_close(rt[2], t[2]))
            if not ok:
                rec.violation(f"roundtrip:{name}->rotated-cart->cart->{name}", f"{case['triples'][0]} -> rotated Cartesian -> Cartesian -> {name} = {rt}", case)
                continue
            rd = comps(v.rebase(rot).rebase(base))
            ok = G.close(rd[0], t[0]) and G.angle_close(rd[1], t[1]) and (G.close(rd[2], t[2]) if name == "cyl" else G.angle_close(rd[2], t[2]))
            if not ok:
                rec.violation(f"roundtrip:{name}->rotated-cart->{name}:direct", f"{case['triples'][0]} -> Cartesian system rotated by {th} about axis {axis} -> {name} (directly) = {rd}", case)
        except Exception as x:  # pylint: disable=broad-except
            rec.violation(f"rotated-raises:{name}:{type(x).__name__}", f"rotated-system case {case} raised {type(x).__name__}: {str(x)[:100]}", case)


def float_zero_case(r, sy, rec):
    """vectors with a floating-point zero component (thorough seed 8 met one by chance: SymPy cannot multiply a base vector
    by Float(0.0), so the re-expression crashed on the pinned tree; repaired in /repo)"""
    import sympy
    from symplyphysics import Vector
    p = rand_cart(r)
    for pos in (2, 1):
        q = [sympy.Float(float(c)) for c in p]
        q[pos] = sympy.Float(0.0)
        pa = [float(c) for c in q]
        if math.hypot(pa[0], pa[1]) < 0.1 or abs(abs(math.atan2(pa[1], pa[0])) - math.pi) < 0.05:
            continue
        case = {"float_zero_at": pos, "a": [str(c) for c in q]}
        rec.case(case)
        for name, system, fwd in (("cyl", sy.cyl, G.cart_to_cyl), ("sph", sy.sph, G.cart_to_sph)):
            rec.hit("float_zero_component")
            try:
                w = Vector(q, sy.C).rebase(system)
                got, back = comps(w), comps(w.rebase(sy.C))
            except Exception as x:  # pylint: disable=broad-except
                rec.violation(f"rebase-raises:float-zero:{name}:{type(x).__name__}", f"rebase of {case['a']} (floating-point zero component) to {name} raised {type(x).__name__}: {str(x)[:100]}", case)
                continue
            want = fwd(*pa)
            ok = G.close(got[0], want[0]) and G.angle_close(got[1], want[1]) and (G.close(got[2], want[2]) if name == "cyl" else G.angle_close(got[2], want[2]))
            if not ok or not all(G.close(x, y) for x, y in zip(back, pa)):
                rec.violation(f"rebase-value:float-zero:{name}", f"Vector({case['a']}).rebase({name}) = {got}, own transform {want}; back {back}", case)


def symbolic_case(sy, rec, r):
    import sympy
    from symplyphysics import Vector
    x, y, z = sympy.symbols("x y z", positive=True)
    v = Vector([x, y, z], sy.C)
    for name, system, fwd in (("cyl", sy.cyl, G.cart_to_cyl), ("sph", sy.sph, G.cart_to_sph)):
        rec.hit("symbolic")
        w = v.rebase(system)
        back = w.rebase(sy.C)
        for _ in range(3):
            vals = {x: sympy.Rational(r.randint(1, 50), 10), y: sympy.Rational(r.randint(1, 50), 10), z: sympy.Rational(r.randint(1, 50), 10)}
            got = [fl(c.subs(vals)) for c in w.components]
            want = fwd(*[float(vals[s]) for s in (x, y, z)])
            if not all(G.close(a, b, 1e-9) for a, b in zip(got, want)):
                rec.violation(f"rebase-symbolic:cart->{name}", f"symbolic rebase to {name} at {vals}: {got} vs {want}", {"symbolic": name})
                break
            gb = [fl(c.subs(vals)) for c in back.components]
            if not all(G.close(a, float(vals[s]), 1e-9) for a, s in zip(gb, (x, y, z))):
                rec.violation(f"roundtrip-symbolic:{name}", f"symbolic there-and-back via {name} at {vals}: {gb}", {"symbolic": name})
                break


def field_case(r, sy, rec):
    import sympy
    from symplyphysics.core.fields.scalar_field import ScalarField
    from symplyphysics.core.points.cartesian_point import CartesianPoint
    from symplyphysics.core.points.cylinder_point import CylinderPoint
    from symplyphysics.core.points.sphere_point import SpherePoint

    def rand_expr(a, b, c):
        terms = []
        for _ in range(r.randint(2, 4)):
            t = sympy.Integer(r.randint(-4, 4) or 2)
            for s in (a, b, c):
                t = t * s ** r.choice([0, 1, 1, 2])
            if r.random() < 0.4:
                t = t * r.choice([sympy.sin, sympy.cos])(r.choice([a, b, c]) * r.choice([1, 2]))
            terms.append(t)
        return sum(terms)
    for name, system, mk_point, fwd in (("cyl", sy.cyl, CylinderPoint, G.cart_to_cyl), ("sph", sy.sph, SpherePoint, G.cart_to_sph)):
        # Cartesian field -> curvilinear
        xs = sy.C.coord_system.base_scalars()
        e = rand_expr(*xs)
        case = {"direction": f"cart->{name}", "field": str(e)}
        rec.case(case, nontrivial=len(e.free_symbols) >= 2)
        f = ScalarField.from_expression(e, sy.C)
        try:
            g = f.rebase(system)
        except Exception as x:  # pylint: disable=broad-except
            rec.violation(f"field-rebase-raises:{type(x).__name__}", f"rebase of field {e} to {name} raised {type(x).__name__}: {str(x)[:100]}", case)
            continue
        for _ in range(4):
            p = [float(c) for c in rand_cart(r)]
            want = fl(f(CartesianPoint(*p)))
            got = fl(g(mk_point(*fwd(*p))))
            rec.hit("field_value")
            if not G.close(got, want, 1e-8):
                rec.violation(f"field-value:cart->{name}", f"field {e}: value {want} at {p}, rebased field gives {got} at {fwd(*p)}", case)
                break
        # points given with two coordinates (the third one is zero): a point in the plane z = 0
        if name == "cyl":
            for _ in range(2):
                p2 = [float(c) for c in rand_cart(r)][:2]
                own = fl(e.subs(dict(zip(xs, p2 + [0.0]))))
                rho_, az_, _ = fwd(p2[0], p2[1], 0.0)
                rec.hit("field_value_short_point")
                try:
                    v_c = fl(f(CartesianPoint(*p2)))
                    v_s = fl(g(mk_point(rho_, az_)))
                except Exception as x:  # pylint: disable=broad-except
                    rec.violation(f"field-value:short-point:{type(x).__name__}", f"field {e} at the two-coordinate point {p2}: {type(x).__name__}: {str(x)[:100]}", case)
                    break
                if not (G.close(v_c, own, 1e-8) and G.close(v_s, own, 1e-8)):
                    rec.violation("field-value:short-point", f"field {e}: own value {own} at ({p2[0]}, {p2[1]}, 0); the field gives {v_c} at the two-coordinate Cartesian point and the rebased field {v_s} at the two-coordinate cylinder point", case)
                    break
        # curvilinear field -> Cartesian
        cs = system.coord_system.base_scalars()
        e2 = rand_expr(*cs)
        case2 = {"direction": f"{name}->cart", "field": str(e2)}
        rec.case(case2, nontrivial=len(e2.free_symbols) >= 2)
        f2 = ScalarField.from_expression(e2, system)
        try:
            g2 = f2.rebase(sy.C)
        except Exception as x:  # pylint: disable=broad-except
            rec.violation(f"field-rebase-raises:{type(x).__name__}", f"rebase of field {e2} from {name} raised {type(x).__name__}: {str(x)[:100]}", case2)
            continue
        for _ in range(4):
            p = [float(c) for c in rand_cart(r)]
            cur = fwd(*p)
            want = fl(f2(mk_point(*cur)))
            got = fl(g2(CartesianPoint(*p)))
            rec.hit("field_value")
            if not G.close(got, want, 1e-8):
                rec.violation(f"field-value:{name}->cart", f"field {e2}: value {want} at {cur}, rebased field gives {got} at {p}", case2)
                break


def refusal_cases(sy, rec):
    import sympy
    from symplyphysics import Vector
    from symplyphysics.core.fields.scalar_field import ScalarField
    from symplyphysics.core.fields.vector_field import VectorField
    from symplyphysics.core.points.cartesian_point import CartesianPoint
    from symplyphysics.core.points.cylinder_point import CylinderPoint
    from symplyphysics.core.points.sphere_point import SpherePoint

    def must_refuse(name, fn, case):
        rec.hit("refusal")
        rec.case(("refusal", name, str(case)))
        try:
            res = fn()
        except ValueError:
            return
        except Exception as e:  # pylint: disable=broad-except
            rec.note(f"{name}: refused by {type(e).__name__}")
            return
        rec.violation(f"not-refused:{name}", f"{name} answered {getattr(res, 'components', res)} instead of refusing: {case}", case)
    for comps_ in ([2, sympy.pi / 3, 5], [1, 1], [3], [], [sympy.Symbol("a"), 0, 1]):
        must_refuse("vector-rebase:cyl->sph", lambda: Vector(comps_, sy.cyl).rebase(sy.sph), {"components": [str(c) for c in comps_]})
        must_refuse("vector-rebase:sph->cyl", lambda: Vector(comps_, sy.sph).rebase(sy.cyl), {"components": [str(c) for c in comps_]})
    r_, t_, z_ = sy.cyl.coord_system.base_scalars()
    R, T, P = sy.sph.coord_system.base_scalars()
    for e in (r_ * z_, r_ + sympy.sin(t_), z_ ** 2 + 1):
        must_refuse("field-rebase:cyl->sph", lambda: ScalarField.from_expression(e, sy.cyl).rebase(sy.sph), {"field": str(e)})
    for e in (R * sympy.cos(P), R + T, P ** 2 + 1):
        must_refuse("field-rebase:sph->cyl", lambda: ScalarField.from_expression(e, sy.sph).rebase(sy.cyl), {"field": str(e)})
    pts = {"cart": CartesianPoint(1, 2, 3), "cyl": CylinderPoint(1, 2, 3), "sph": SpherePoint(1, 2, 1)}
    systems = {"cart": sy.C, "cyl": sy.cyl, "sph": sy.sph}
    for sname, system in systems.items():
        b = system.coord_system.base_scalars()
        sf = ScalarField.from_expression(b[0] * b[1] + b[2], system)
        vf_ = VectorField.from_vector(Vector([b[0], b[1] * b[2], 1], system))
        sf2 = ScalarField(lambda p: p.coordinate(0) + p.coordinate(2), system)
        for pname, pt in pts.items():
            if pname == sname:
                continue
            must_refuse(f"scalar-field[{sname}]({pname}-point)", lambda: sf(pt), {"field_system": sname, "point": pname})
            must_refuse(f"scalar-field-callable[{sname}]({pname}-point)", lambda: sf2(pt), {"field_system": sname, "point": pname})
            must_refuse(f"vector-field[{sname}]({pname}-point)", lambda: vf_(pt), {"field_system": sname, "point": pname})


def work(spec, rec):
    r = harness.rng_for("C11", spec["seed"], spec["shard"])
    sy = Sys()
    for i in range(spec["vectors"]):
        rec.checkpoint()
        try:
            with harness.Watchdog(60):
                vector_case(r, sy, rec, i)
                curvilinear_case(r, sy, rec)
                if i % 5 == 0:
                    rotated_case(r, rec)
                if i % 5 == 1:
                    float_zero_case(r, sy, rec)
        except TimeoutError:
            rec.inconc("watchdog in vector case")
    for i in range(spec["fields"]):
        rec.checkpoint()
        try:
            with harness.Watchdog(120):
                field_case(r, sy, rec)
        except TimeoutError:
            rec.inconc("watchdog in field case")
    try:
        with harness.Watchdog(120):
            symbolic_case(sy, rec, r)
    except TimeoutError:
        rec.inconc("watchdog in symbolic case")
    if spec["shard"] == 0:
        refusal_cases(sy, rec)


def replay(case, rec):
    rec.note("cases are regenerated from (seed, shard); rerun the tier with the same VERIF_SEED: " + str(case)[:300])
    sy = Sys()
    refusal_cases(sy, rec)
