"""C16 - vector-equation rearrangement is equivalence-preserving.
Workload: generated linear combinations of vector symbols / products with symbolic scalar coefficients, passed as
expression and as Eq splits, every choice of unknown, both reduce_factor modes; scalar equations (polynomial, rational,
radical with extraneous roots) for solve_for_scalar; random functions for apply.
Oracle: R^3 interpreter (vf/vecsem.py): L - R == +-expr / coeff (reduce on) or +-expr (reduce off); L is the unknown."""
from __future__ import annotations

import mpmath

from vf import harness, vecsem

RULE = ("[coefficients multiplied, in 40% of the cases, by Abs(s), sqrt(s**2), 1/Abs(s), s/Abs(s) or Abs(s)/s of a real scalar that takes both signs] generated expr = sum k_i * w_i with coefficients from {-1, integers, symbols, sums, quotients, products needing "
        "expansion} and w_i atomic vectors, vector functions or cross products of atoms; the unknown may occur in several "
        "expanded terms; input given as expression or as Eq(lhs, rhs) split; for every atomic vector and both reduce_factor "
        "modes the returned Eq(L, R) is interpreted in R^3 at 3 random assignments: L - R must equal expr divided by the "
        "coefficient of one a-term (either sign, same for all assignments) / +-expr, and L must be the unknown (times minus "
        "that coefficient); if the unknown occurs in no other term, substituting R for it makes expr vanish; unknown not a term "
        "-> ValueError, non-vector -> TypeError. solve_for_scalar: every returned Eq(sym, sol) substituted into the equation "
        "gives 0 (incl. radical equations with an extraneous root); apply: sides equal f(lhs), f(rhs). "
        "non-trivial = >=2 terms; distinct = (equation, unknown, mode).")
RULE = RULE + ' Also: eleven ill-formed expressions (a vector in a denominator in whatever form, scalar + vector, norm, vector + dot product) must be refused.'
ASSUMPTIONS = ["vf/vecsem.py coordinate semantics", "3 random real assignments decide a rational identity"]
N = {"quick": 480, "thorough": 19200}
MIN_REACH = {"quick": {"rearranged": 1200, "sign_dependent_coefficient": 120, "refused_not_a_term": 80, "refused_non_vector": 30, "solution_substituted": 150,
                       "unknown_in_several_terms": 60, "scalar_solved": 200, "radical": 40, "apply": 200, "refused_ill_formed": 1000},
             "thorough": {"rearranged": 40000, "scalar_solved": 8000}}
SHARD_TIMEOUT = {"quick": 600, "thorough": 3000}


def plan(tier, seed):
    n = N[tier]
    return [{"_label": f"shard{i}", "seed": seed, "shard": i, "equations": n // 16} for i in range(16)]


def mp(x):
    return mpmath.mpf(x)


def vec_equation_case(r, rec):
    import sympy
    from sympy import Eq, S
    from symplyphysics import Symbol
    from symplyphysics.core.experimental.vectors import VectorSymbol, VectorCross, VectorFunction
    from symplyphysics.core.experimental.solvers import solve_for_vector
    nv = r.randint(2, 4)
    V = [VectorSymbol(f"v{j}") for j in range(nv)]
    Sx = [Symbol(f"s{j}", real=True) for j in range(3)]
    t = Symbol("t", real=True)
    F = VectorFunction("f", (t,))(t) if r.random() < 0.25 else None

    def coeff():
        k = r.random()
        if k < 0.15:
            return S.NegativeOne
        if k < 0.3:
            return sympy.Integer(r.choice([2, 3, -2]))
        if k < 0.5:
            return r.choice(Sx)
        if k < 0.65:
            return r.choice(Sx) + r.choice([1, 2])
        if k < 0.8:
            return r.choice(Sx) / r.choice(Sx[:2]) * r.choice([1, -1, 2])
        if k < 0.9:
            return (r.choice(Sx) + r.choice(Sx)) * r.choice(Sx)
        return sympy.Rational(r.choice([1, -3, 5]), r.choice([2, 4]))
    terms = []
    several = False
    for v in V:
        k = r.random()
        if k < 0.7:
            w = v
        elif k < 0.9:
            w = VectorCross(v, r.choice([u for u in V if u is not v]))
        else:
            w = v + r.choice(V)  # needs expansion; may repeat a vector
            several = True
        terms.append(coeff() * w)
    if r.random() < 0.3:
        terms.append(coeff() * (V[0] + V[1]))
        several = True
    if r.random() < 0.2:
        terms.append(r.choice(Sx) * V[r.randrange(nv)])  # a second term with the same vector and another coefficient
        several = True
    if r.random() < 0.25:
        # brackets nested two deep: y * (x * (a + b) + c)
        terms.append(r.choice(Sx) * (r.choice(Sx[:2] + [sympy.Integer(2)]) * (V[0] + V[1]) + V[r.randrange(nv)]))
        several = True
        rec.hit("nested_brackets")
    if F is not None:
        terms.append(coeff() * F)
    # coefficients whose sign depends on the sign of a real scalar (Abs(s), sqrt(s**2), their reciprocals): drawn from a
    # stream of its own so that the main stream is unchanged
    import random as _random
    rx = _random.Random(harness.h([str(x) for x in terms]))
    if rx.random() < 0.4:
        sgn = [lambda x: sympy.Abs(x), lambda x: sympy.sqrt(x**2), lambda x: 1 / sympy.Abs(x), lambda x: x / sympy.Abs(x), lambda x: sympy.Abs(x) / x]
        for _ in range(rx.choice([1, 1, 2])):
            i = rx.randrange(len(terms))
            terms[i] = rx.choice(sgn)(rx.choice(Sx)) * terms[i]
        rec.hit("sign_dependent_coefficient")
    r.shuffle(terms)
    expr = sum(terms[1:], terms[0])
    if r.random() < 0.5 and len(terms) > 1:
        k = r.randint(1, len(terms) - 1)
        inp = Eq(sum(terms[1:k], terms[0]), -sum(terms[k + 1:], terms[k]), evaluate=False)
        if not isinstance(inp, Eq):
            inp = expr
    else:
        inp = expr
    case_base = {"equation": str(inp)[:300], "terms": len(terms)}
    unknowns = list(V) + ([F] if F is not None else [])
    # a vector that is not a term
    outsider = VectorSymbol("w_out")
    rec.hit("refused_not_a_term")
    try:
        res = solve_for_vector(inp, outsider)
        rec.violation("not-a-term-accepted", f"solve_for_vector({inp}, w_out) returned {res} although w_out is not a term", case_base)
    except ValueError:
        pass
    except Exception as e:  # pylint: disable=broad-except
        rec.violation(f"not-a-term-wrong-exception:{type(e).__name__}", f"unknown not a term raised {type(e).__name__}", case_base)
    for a in unknowns:
        for red in (True, False):
            case = dict(case_base, unknown=str(a), reduce_factor=red)
            try:
                with harness.Watchdog(60):
                    res = solve_for_vector(inp, a, reduce_factor=red)
            except ValueError:
                # legitimate only if a is not a term of the expanded expression
                exp = sympy.expand(expr)
                if exp.has(a):
                    # a may be hidden inside a cross product only (then it is not an atomic term)
                    atomic_term = any(term.has(a) and not term.has(VectorCross) for term in (exp.args if isinstance(exp, sympy.Add) else (exp,)))
                    if atomic_term:
                        rec.violation("refuses-existing-term", f"solve_for_vector refused {a} although it is a term of {str(exp)[:200]}", case)
                continue
            except TimeoutError:
                rec.inconc("watchdog in solve_for_vector")
                continue
            except Exception as e:  # pylint: disable=broad-except
                rec.violation(f"raises:{type(e).__name__}", f"solve_for_vector raised {type(e).__name__}: {str(e)[:100]} on {case}", case)
                continue
            rec.hit("rearranged")
            if several:
                rec.hit("unknown_in_several_terms")
            rec.case((case["equation"], case["unknown"], red), nontrivial=len(terms) >= 2)
            ok = True
            ratio_sign = None
            cands_seen = None
            for trial in range(3):
                vv = {v: tuple(mp(r.randint(-2000, 2000)) / 1000 for _ in range(3)) for v in V + [outsider]}
                env = dict(vv)
                env.update({s: mp(r.randint(500, 2000)) / 1000 * r.choice([1, -1]) for s in Sx})
                env[t] = mp(r.randint(-1000, 1000)) / 1000
                if F is not None:
                    env[F] = tuple(mp(r.randint(-2000, 2000)) / 1000 for _ in range(3))
                try:
                    full = vecsem.interp(sympy.sympify(expr), env)
                    diff = vecsem.interp(sympy.sympify(res.lhs - res.rhs), env)
                    lhs_v = vecsem.interp(sympy.sympify(res.lhs), env)
                except (vecsem.Uninterpretable, ZeroDivisionError) as e:
                    rec.inconc("not interpretable: " + str(e)[:50])
                    ok = None
                    break
                full = full if vecsem.isvec(full) else vecsem.ZERO
                diff = diff if vecsem.isvec(diff) else vecsem.ZERO
                # candidate coefficients: those of the expanded terms whose vector is a
                exp = sympy.expand(expr)
                cands = []
                for term in (exp.args if isinstance(exp, sympy.Add) else (exp,)):
                    if term == a:
                        cands.append(mp(1))
                    elif isinstance(term, sympy.Mul) and a in term.args:
                        rest = sympy.Mul(*[x for x in term.args if x != a])
                        try:
                            cands.append(vecsem.interp(rest, env))
                        except vecsem.Uninterpretable:
                            pass
                a_val = env[a]
                matched = False
                for ci, cval in enumerate(cands):
                    if cval == 0:
                        continue
                    for sign in (1, -1):
                        want = vecsem.vscale(sign / cval, full) if red else vecsem.vscale(sign, full)
                        good, _, _ = vecsem.close(want, diff, tol=mp("1e-15"))
                        want_l = a_val if red else None
                        if good:
                            # L must be the unknown (times minus its coefficient when reduction is off)
                            if red:
                                gl, _, _ = vecsem.close(a_val, lhs_v, tol=mp("1e-15"))
                            else:
                                gl = any(vecsem.close(vecsem.vscale(s2 * cval, a_val), lhs_v, tol=mp("1e-15"))[0] for s2 in (1, -1))
                            if gl and (ratio_sign is None or ratio_sign == sign):
                                ratio_sign = sign
                                matched = True
                                break
                    if matched:
                        break
                if not matched:
                    ok = False
                    rec.violation(f"not-equivalent:reduce={red}", f"solve_for_vector({str(inp)[:160]}, {a}, reduce_factor={red}) = {str(res)[:200]}: "
                                  f"L-R = {[mpmath.nstr(c, 8) for c in diff]}, expr = {[mpmath.nstr(c, 8) for c in full]}, candidate coefficients {[mpmath.nstr(c, 8) for c in cands]}", case)
                    break
            if ok and red:
                # if a occurs in no other term and no coefficient: substituting R for a makes expr vanish
                rhs = sympy.sympify(res.rhs)
                if not rhs.has(a):
                    rec.hit("solution_substituted")
                    try:
                        env2 = dict(env)
                        env2[a] = vecsem._v(vecsem.interp(rhs, env))
                        val = vecsem.interp(sympy.sympify(expr), env2)
                        val = val if vecsem.isvec(val) else vecsem.ZERO
                        g, _, _ = vecsem.close(vecsem.ZERO, val, tol=mp("1e-14"))
                        if not g:
                            rec.violation("solution-does-not-satisfy", f"substituting the right-hand side {str(rhs)[:120]} for {a} leaves {[mpmath.nstr(c, 8) for c in val]}", case)
                    except (vecsem.Uninterpretable, ZeroDivisionError):
                        pass
            if ok and len(rec.samples) < 3:
                rec.sample(dict(case, result=str(res)[:200]))
    if len(V) >= 3:
        ill_formed_vector_expressions(rec, V, Sx)
    # non-vector expression -> TypeError
    rec.hit("refused_non_vector")
    for bad in (Sx[0] + 2, Sx[0] * Sx[1], sympy.Integer(3)):
        try:
            res = solve_for_vector(bad, V[0])
            rec.violation("non-vector-accepted", f"solve_for_vector({bad}, v0) returned {res}", {"expression": str(bad)})
        except TypeError:
            pass
        except Exception as e:  # pylint: disable=broad-except
            rec.violation(f"non-vector-wrong-exception:{type(e).__name__}", f"solve_for_vector({bad}, v0) raised {type(e).__name__} instead of TypeError", {"expression": str(bad)})


def ill_formed_vector_expressions(rec, V, Sx):
    """expressions that contain vectors but are not vector expressions (a vector in a denominator, in whatever form; a
    scalar added to a vector): a request to solve them for a vector is refused"""
    import sympy
    from symplyphysics.core.experimental.solvers import solve_for_vector
    from symplyphysics.core.experimental.vectors import VectorNorm, VectorDot
    x, y = Sx[0], Sx[1]
    a, b, c, d = V[0], V[1], V[2 % len(V)], V[3 % len(V)]
    bad = {"vector/vector": c + a / b, "vector/(scalar*vector)": c + a / (x * b), "vector/(-vector)": c + a / (-b), "vector/(vector+vector)": c + a / (b + d),
           "vector/(2*vector)": c + a / (2 * b), "scalar/vector": c + x / b, "scalar/(scalar*vector)": c + y / (x * b), "vector+scalar": c + x,
           "norm": VectorNorm(c), "vector+dot": c + VectorDot(a, b), "vector/(vector*scalar)**1": c + a * (x * b) ** -1}
    for label, e in bad.items():
        rec.hit("refused_ill_formed")
        rec.case(("ill-formed", label))
        try:
            res = solve_for_vector(e, c)
            rec.violation(f"non-vector-accepted:{label}", f"solve_for_vector({e}, {c}) returned {res} for an expression that is not a vector expression ({label})", {"expression": str(e), "kind": label})
        except (TypeError, ValueError):
            pass
        except Exception as x_:  # pylint: disable=broad-except
            rec.note(f"ill-formed {label}: refused by {type(x_).__name__}")


def scalar_case(r, rec):
    import sympy
    from sympy import Eq, sqrt
    from symplyphysics import Symbol
    from symplyphysics.core.experimental.solvers import solve_for_scalar
    x = Symbol("x", real=True)
    a, b, c = [sympy.Rational(r.randint(1, 9), r.choice([1, 1, 2])) for _ in range(3)]
    k = r.random()
    radical = False
    if k < 0.25:
        eq = Eq(a * x + b, c)
    elif k < 0.45:
        eq = Eq(a * x**2 - b, 0)
    elif k < 0.6:
        eq = Eq(a / (x + b), c)
    elif k < 0.75:
        eq = Eq((x - a) * (x + b), 0)
    else:
        # radical equation with exactly one true root and one extraneous candidate: sqrt(x + p) = x - q
        radical = True
        root = r.randint(3, 12)
        q = r.randint(1, root - 1)
        p = (root - q) ** 2 - root
        eq = Eq(sqrt(x + p), x - q)
    case = {"equation": str(eq), "symbol": "x"}
    rec.case(("scalar", str(eq)))
    try:
        with harness.Watchdog(60):
            sols = solve_for_scalar(eq, x)
    except TimeoutError:
        rec.inconc("watchdog in solve_for_scalar")
        return
    except IndexError:
        rec.add("scalar_no_solution")
        return
    except Exception as e:  # pylint: disable=broad-except
        rec.violation(f"solve_for_scalar-raises:{type(e).__name__}", f"solve_for_scalar({eq}) raised {type(e).__name__}: {str(e)[:100]}", case)
        return
    rec.hit("scalar_solved")
    if radical:
        rec.hit("radical")
    for s in sols:
        if not isinstance(s, Eq) or s.lhs != x:
            rec.violation("solve_for_scalar-shape", f"solve_for_scalar({eq}) returned {s} (not Eq(x, solution))", case)
            continue
        resid = sympy.N((eq.lhs - eq.rhs).subs(x, s.rhs), 30)
        if abs(complex(resid)) > 1e-12:
            rec.violation("solve_for_scalar-not-a-solution" + (":radical" if radical else ""), f"solve_for_scalar({eq}) returned {s}, residual {resid}", case)


def apply_case(r, rec):
    import sympy
    from sympy import Eq
    from symplyphysics import Symbol
    from symplyphysics.core.experimental.vectors import VectorSymbol, VectorDot, VectorNorm, VectorCross
    from symplyphysics.core.experimental.solvers import apply
    u, v, w = VectorSymbol("u"), VectorSymbol("v"), VectorSymbol("w")
    k = Symbol("k", real=True)
    lhs, rhs = k * u + v, r.choice([2, -1, k]) * w - u
    fs = {"scale": lambda e: e * 3, "add": lambda e: e + w, "dot": lambda e: VectorDot(e, w), "norm": VectorNorm, "cross": lambda e: VectorCross(u, e)}
    name = r.choice(list(fs))
    f = fs[name]
    as_eq = r.random() < 0.6
    if not as_eq and r.random() < 0.5:
        # a bare scalar expression (read as `expression = 0`), also objects that happen to have operands called lhs / rhs
        lhs = r.choice([VectorDot(u, v), VectorDot(u, v) + k, VectorNorm(u), VectorDot(VectorCross(u, v), w), k * VectorDot(v, w)])
        sfs = {"scale": lambda e: e * 3, "add-scalar": lambda e: e + k, "square": lambda e: e ** 2, "times-vector": lambda e: e * w}
        name = r.choice(list(sfs))
        f = sfs[name]
        rec.hit("apply_bare_scalar")
    inp = Eq(lhs, rhs, evaluate=False) if as_eq else lhs
    rec.case(("apply", name, as_eq, str(rhs)))
    rec.hit("apply")
    case = {"function": name, "input": str(inp)}
    try:
        res = apply(inp, f)
    except Exception as e:  # pylint: disable=broad-except
        rec.violation(f"apply-raises:{type(e).__name__}", f"apply({inp}, {name}) raised {type(e).__name__}: {str(e)[:100]}", case)
        return
    want_l, want_r = f(lhs), f(rhs if as_eq else sympy.S.Zero)
    for _ in range(2):
        env = {s: tuple(mp(r.randint(-2000, 2000)) / 1000 for _ in range(3)) for s in (u, v, w)}
        env[k] = mp(r.randint(500, 2000)) / 1000
        try:
            pairs = [(vecsem.interp(sympy.sympify(res.lhs), env), vecsem.interp(sympy.sympify(want_l), env)),
                     (vecsem.interp(sympy.sympify(res.rhs), env), vecsem.interp(sympy.sympify(want_r), env))]
        except (vecsem.Uninterpretable, AttributeError) as e:
            rec.inconc("apply result not interpretable: " + str(e)[:40])
            return
        for got, want in pairs:
            g, _, _ = vecsem.close(want, got, tol=mp("1e-15"))
            if not g:
                rec.violation(f"apply:{name}", f"apply({inp}, {name}) = {res}: side differs from f applied to the side", case)
                return


def work(spec, rec):
    r = harness.rng_for("C16", spec["seed"], spec["shard"])
    for i in range(spec["equations"]):
        rec.checkpoint()
        try:
            with harness.Watchdog(240):
                vec_equation_case(r, rec)
        except TimeoutError:
            rec.inconc("watchdog around the equation")
        for _ in range(8):
            scalar_case(r, rec)
            apply_case(r, rec)


def replay(case, rec):
    rec.note("equations are regenerated from (seed, shard); rerun with the same VERIF_SEED: " + str(case)[:300])
