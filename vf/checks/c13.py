"""C13 - circulation and flux integrals satisfy Stokes', Green's and Gauss' theorems.
Workload: both library routes to the same integral on generated fields and regions.
Monitor: expressions returned by circulation_along_* / flux_across_*.
Oracle: route-vs-route equality, own quadrature (mpmath) of the hand-pulled-back integrand, free-symbol check,
reparametrisation / orientation metamorphic relations."""
from __future__ import annotations

import mpmath

from vf import harness

RULE = ("set-ups in a Cartesian system: (Stokes) closed curve vs spanning surface - circles/ellipses with offset centres, tilted "
        "planar discs, cones over circles, rectangles as 4 segments; (Green) outward flux across a closed planar curve vs "
        "divergence integral over the enclosed region; (Gauss) six outward faces of a box vs volume integral. Fields: random "
        "polynomials of degree <=3 with non-constant curl and divergence (trig terms on boxes/rectangles), generic symbolic "
        "coefficients in a third of the cases. Each result is compared with the other route and with own quadrature, must be "
        "free of coordinate/parameter symbols, invariant under t->2t, t->t^2 and negated by reversed limits / t->-t. "
        "non-trivial = expected value != 0; distinct = distinct (set-up, field).")
RULE = RULE + " Also: every core call repeated through the catalogue's wrapper in laws/fields (must agree); two-component fields depending on z, rectangles in planes y = const, region reparametrisations; Gauss on coordinate boxes of cylindrical and spherical systems against own quadrature (Cartesian divergence x Jacobian; outward flux through the six coordinate faces)."
ASSUMPTIONS = ["mpmath.quad of the integrand pulled back with plain sympy subs/diff (no library code) is the reference value",
               "a SymPy integrate() that stalls (watchdog) is inconclusive"]
N = {"quick": 96, "thorough": 960}
MIN_REACH = {"quick": {"dependent_limits": 4, "region_reparametrised": 12, "stokes": 24, "green": 16, "gauss": 16, "quadrature": 50, "reparametrisation": 10, "free_symbols": 80,
                       "two_component_field_off_plane": 3, "planar_field_depending_on_z": 5, "law_wrapper_compared": 150, "gauss_curvilinear": 24},
             "thorough": {"stokes": 150, "green": 100, "gauss": 100}}
SHARD_TIMEOUT = {"quick": 900, "thorough": 3300}
mpmath.mp.dps = 25


def plan(tier, seed):
    n = N[tier]
    return [{"_label": f"shard{i}", "seed": seed, "shard": i, "setups": n // 16} for i in range(16)]


def make_field(r, cs, trig=False, symbolic=False):
    """-> (component expressions in base scalars, coefficient symbols)"""
    import sympy
    x, y, z = cs.coord_system.base_scalars()
    mons = [1, x, y, z, x * y, y * z, x * z, x**2, y**2, z**2, x**2 * y, y**2 * x, x * y * z, z**2 * x, y**3, x**3]
    coefs = []

    def comp():
        e = sympy.Integer(0)
        for m in r.sample(mons, r.randint(3, 6)):
            if symbolic and r.random() < 0.4:
                c = sympy.Symbol(f"k{len(coefs)}", real=True)
                coefs.append(c)
            else:
                c = r.choice([1, -2, 3, sympy.Rational(1, 2), -1, 2])
            e = e + c * m
        if trig:
            e = e + r.choice([sympy.sin, sympy.cos])(r.choice([x, y, z])) * r.choice([1, 2, y, x])
        return e
    return [comp(), comp(), comp()], coefs


def numeric(expr, coefvals):
    import sympy
    v = sympy.sympify(expr).subs(coefvals)
    v = sympy.N(v, 25)
    if not v.is_number:
        raise ValueError("not a number: " + str(v)[:80])
    return mpmath.mpf(str(sympy.re(v)))


def quad_curve(F, basescalars, gamma, t, a, b, coefvals, flux=False):
    """own pull-back: circulation int F(gamma).gamma' dt, or outward flux int F(gamma).(y', -x') dt"""
    import sympy
    g = list(gamma) + [0] * (3 - len(gamma))
    sub = dict(zip(basescalars, g))
    Fg = [sympy.sympify(c).subs(sub, simultaneous=True).subs(coefvals) for c in F]
    d = [sympy.diff(c, t) for c in g]
    integrand = (Fg[0] * d[1] - Fg[1] * d[0]) if flux else sum(Fg[i] * d[i] for i in range(3))
    f = sympy.lambdify(t, integrand, "mpmath")
    return mpmath.quad(f, [a, (a + b) / 2, b])


def close(a, b, tol="1e-9"):
    return abs(a - b) <= mpmath.mpf(tol) * max(1, abs(a), abs(b))


class Run:
    def __init__(self, rec, r):
        self.rec, self.r = rec, r

    def call(self, name, fn, case):
        try:
            with harness.Watchdog(90):
                return fn()
        except TimeoutError:
            self.rec.inconc("watchdog: SymPy integrate stalled in " + name)
        except Exception as e:  # pylint: disable=broad-except
            self.rec.violation(f"raises:{name}:{type(e).__name__}", f"{name} raised {type(e).__name__}: {str(e)[:120]}", case)
        return None

    def via_law(self, core_name, core_fn, law_fn, coefvals, case):
        """the same integral through the core routine and through the catalogue's law wrapper (laws/fields): must agree"""
        core = core_fn()
        try:
            with harness.Watchdog(90):
                law = law_fn()
        except TimeoutError:
            self.rec.inconc("watchdog: SymPy integrate stalled in the law wrapper of " + core_name)
            return core
        except Exception as e:  # pylint: disable=broad-except
            self.rec.violation(f"law-wrapper-raises:{core_name}", f"laws/fields wrapper of {core_name} raised {type(e).__name__}: {str(e)[:120]}", case)
            return core
        self.rec.hit("law_wrapper_compared")
        try:
            import sympy
            if sympy.simplify(sympy.sympify(core) - sympy.sympify(law)) != 0 and not close(numeric(core, coefvals), numeric(law, coefvals), "1e-9"):
                self.rec.violation(f"law-wrapper-differs:{core_name}", f"laws/fields wrapper of {core_name} returns {str(law)[:100]} but the core routine returns {str(core)[:100]}", case)
        except ValueError:
            pass
        return core

    def check_free(self, name, res, forbidden, case):
        import sympy
        self.rec.hit("free_symbols")
        bad = sympy.sympify(res).free_symbols & set(forbidden)
        if bad or sympy.sympify(res).has(sympy.Integral):
            self.rec.violation(f"free-symbols:{name}", f"{name} returned {str(res)[:160]} which still contains {sorted(map(str, bad)) or 'an unevaluated Integral'}", case)
            return False
        return True


def stokes_setup(run: Run, cs, idx):
    import sympy
    from sympy import cos, sin, pi
    from symplyphysics import Vector
    from symplyphysics.core.fields.vector_field import VectorField
    from symplyphysics.core.fields import analysis as A
    r, rec = run.r, run.rec
    t, s = sympy.symbols("t s", real=True)
    bs = cs.coord_system.base_scalars()
    symbolic = idx % 3 == 0
    shape = r.choice(["ellipse", "tilted", "tilted", "cone", "cone", "rectangle", "rectangle-xz", "rectangle-xz", "triangle", "triangle", "disc-cartesian"])
    F, coefs = make_field(r, cs, trig=(shape == "rectangle" and r.random() < 0.5), symbolic=symbolic)
    coefvals = {c: sympy.Rational(r.randint(-30, 30), 10) for c in coefs}
    # two-component fields [P(x,y,z), Q(x,y,z)] (the third component is implicitly zero); on the off-plane shapes always one in two
    two = r.random() < (0.5 if shape in ("tilted", "cone", "rectangle-xz") else 0.25)
    if two:
        field = VectorField.from_vector(Vector(F[:2], cs))
        F = F[:2] + [sympy.Integer(0)]
        if shape in ("tilted", "cone", "rectangle-xz"):
            rec.hit("two_component_field_off_plane")
    else:
        field = VectorField.from_vector(Vector(F, cs))
    cx, cy = r.choice([0, 1, -2, sympy.Rational(1, 2)]), r.choice([0, 1, 2, -1])
    R = r.choice([1, 2, sympy.Rational(3, 2)])
    a, b = r.choice([1, 2, 3]), r.choice([1, 2])
    z0 = r.choice([0, 0, 1, -2])
    case = {"theorem": "stokes", "shape": shape, "field": [str(c) for c in F], "centre": [str(cx), str(cy)], "R": str(R), "ab": [a, b], "z0": z0,
            "coefficients": {str(k): str(v) for k, v in coefvals.items()}, "two_component_field": two}
    forbidden = list(bs) + [t, s]
    from symplyphysics.laws.fields import circulation_is_integral_along_curve as LC, circulation_is_integral_of_curl_over_surface as LS

    def curve_circ(g, lim):
        p_, lo_, hi_ = lim
        return run.via_law("circulation_along_curve", lambda: A.circulation_along_curve(field, g, lim),
                           lambda: LC.circulation_law(field, [sympy.sympify(c).subs(p_, LC.parameter) for c in g], lo_, hi_), coefvals, case)

    def surf_circ(sg, lim1, lim2):
        (p1, lo1, hi1), (p2, lo2, hi2) = lim1, lim2
        ren = {p1: LS.parameter1, p2: LS.parameter2}
        rn = lambda e_: sympy.sympify(e_).subs(ren, simultaneous=True)
        return run.via_law("circulation_along_surface_boundary", lambda: A.circulation_along_surface_boundary(field, sg, lim1, lim2),
                           lambda: LS.circulation_law(field, [rn(c) for c in sg], (rn(lo1), rn(hi1)), (rn(lo2), rn(hi2))), coefvals, case)
    if shape in ("triangle", "disc-cartesian"):
        # surfaces whose inner integration limits depend on the outer parameter
        u, v = sympy.symbols("u v", real=True)
        forbidden = forbidden + [u, v]
        if shape == "triangle":
            w_ = a  # triangle (cx,cy) -> (cx+w,cy) -> (cx+w,cy+w)
            segs = [([cx + w_ * t, cy, z0], 0, 1), ([cx + w_, cy + w_ * t, z0], 0, 1), ([cx + w_ - w_ * t, cy + w_ - w_ * t, z0], 0, 1)]
            parts = [run.call("circulation_along_curve", lambda g=g: curve_circ(g, (t, lo, hi)), case) for g, lo, hi in segs]
            if any(p_ is None for p_ in parts):
                return
            circ = sum(parts)
            # u from its lower bound (depending on v) to the right edge; v over the height
            surf = run.call("circulation_along_surface_boundary[dependent limits]",
                            lambda: surf_circ([u, v, z0], (u, cx + (v - cy), cx + w_), (v, cy, cy + w_)), case)
            want = sum(quad_curve(F, bs, g, t, lo, hi, coefvals) for g, lo, hi in segs)
        else:
            gamma = [cx + R * cos(t), cy + R * sin(t), z0]
            circ = run.call("circulation_along_curve", lambda: curve_circ(gamma, (t, 0, 2 * pi)), case)
            half = sympy.sqrt(R**2 - (v - cy) ** 2)
            surf = run.call("circulation_along_surface_boundary[dependent limits]",
                            lambda: surf_circ([u, v, z0], (u, cx - half, cx + half), (v, cy - R, cy + R)), case)
            want = quad_curve(F, bs, gamma, t, 0, 2 * mpmath.pi, coefvals)
        rec.hit("dependent_limits")
    elif shape == "rectangle":
        x0, x1, y0, y1 = cx, cx + a, cy, cy + b
        segs = [([x0 + (x1 - x0) * t, y0, z0], 0, 1), ([x1, y0 + (y1 - y0) * t, z0], 0, 1), ([x1 - (x1 - x0) * t, y1, z0], 0, 1), ([x0, y1 - (y1 - y0) * t, z0], 0, 1)]
        parts = [run.call("circulation_along_curve", lambda g=g: curve_circ(g, (t, lo, hi)), case) for g, lo, hi in segs]
        if any(p is None for p in parts):
            return
        circ = sum(parts)
        surf = run.call("circulation_along_surface_boundary", lambda: surf_circ([t, s, z0], (t, x0, x1), (s, y0, y1)), case)
        want = sum(quad_curve(F, bs, g, t, lo, hi, coefvals) for g, lo, hi in segs)
    elif shape == "rectangle-xz":
        # rectangle in a plane y = y0 (normal along Y), counter-clockwise seen from +Y: z first, then x
        x0, x1, zz0, zz1, y0 = cx, cx + a, z0, z0 + b, cy
        segs = [([x0, y0, zz0 + (zz1 - zz0) * t], 0, 1), ([x0 + (x1 - x0) * t, y0, zz1], 0, 1), ([x1, y0, zz1 - (zz1 - zz0) * t], 0, 1), ([x1 - (x1 - x0) * t, y0, zz0], 0, 1)]
        parts = [run.call("circulation_along_curve", lambda g=g: curve_circ(g, (t, lo, hi)), case) for g, lo, hi in segs]
        if any(p is None for p in parts):
            return
        circ = sum(parts)
        surf = run.call("circulation_along_surface_boundary", lambda: surf_circ([s, y0, t], (t, zz0, zz1), (s, x0, x1)), case)
        want = sum(quad_curve(F, bs, g, t, lo, hi, coefvals) for g, lo, hi in segs)
    else:
        if shape == "ellipse":
            gamma = [cx + a * R * cos(t), cy + b * R * sin(t), z0]
            sigma = [cx + a * s * cos(t), cy + b * s * sin(t), z0]
        elif shape == "tilted":
            al, be = r.choice([1, -1, sympy.Rational(1, 2)]), r.choice([0, 1, 2])
            gamma = [cx + R * cos(t), cy + R * sin(t), al * R * cos(t) + be * R * sin(t)]
            sigma = [cx + s * cos(t), cy + s * sin(t), al * s * cos(t) + be * s * sin(t)]
            case["tilt"] = [str(al), str(be)]
        else:
            h = r.choice([1, 2])
            gamma = [cx + R * cos(t), cy + R * sin(t), z0]
            sigma = [cx + s * cos(t), cy + s * sin(t), z0 + h * (1 - s / R)]
            case["cone_height"] = h
        circ = run.call("circulation_along_curve", lambda: curve_circ(gamma, (t, 0, 2 * pi)), case)
        surf = run.call("circulation_along_surface_boundary", lambda: surf_circ(sigma, (s, 0, R), (t, 0, 2 * pi)), case)
        want = quad_curve(F, bs, gamma, t, 0, 2 * mpmath.pi, coefvals)
        # reparametrisation / orientation (numeric set-ups only: cheap)
        if circ is not None and not symbolic and idx % 2 == 0:
            u = sympy.Symbol("u", real=True)
            g2 = [c.subs(t, 2 * u) for c in gamma]
            c2 = run.call("circulation_along_curve[t->2t]", lambda: A.circulation_along_curve(field, g2, (u, 0, pi)), case)
            crev = run.call("circulation_along_curve[reversed limits]", lambda: A.circulation_along_curve(field, gamma, (t, 2 * pi, 0)), case)
            gneg = [c.subs(t, -u) for c in gamma]
            cneg = run.call("circulation_along_curve[t->-t]", lambda: A.circulation_along_curve(field, gneg, (u, 0, 2 * pi)), case)
            rec.hit("reparametrisation")
            try:
                base = numeric(circ, coefvals)
                for nm, val, sign in (("t->2t", c2, 1), ("reversed-limits", crev, -1), ("t->-t", cneg, -1)):
                    if val is not None and not close(numeric(val, coefvals), sign * base):
                        rec.violation(f"reparametrisation:{nm}", f"circulation {base} becomes {numeric(val, coefvals)} under {nm} (expected {sign * base})", case)
            except ValueError:
                pass
    if circ is None or surf is None:
        return
    rec.hit("stokes")
    ok1 = run.check_free("circulation_along_curve", circ, forbidden, case)
    ok2 = run.check_free("circulation_along_surface_boundary", surf, forbidden, case)
    if not (ok1 and ok2):
        return
    if sympy.simplify(circ - surf) != 0:
        try:
            if not close(numeric(circ, coefvals), numeric(surf, coefvals)):
                key = f"stokes:{shape}"
                extra = ""
                if shape in ("triangle", "disc-cartesian"):
                    # whose fault?  own integrand (curl_z from plain sympy.diff on the flat surface z = z0) integrated (i) by
                    # mpmath quadrature and (ii) by plain sympy.integrate with the same dependent limits - no library code
                    try:
                        xs, ys, zs = bs
                        cz = (sympy.diff(F[1], xs) - sympy.diff(F[0], ys)).subs(coefvals).subs({xs: u, ys: v, zs: z0})
                        lims = ((u, cx + (v - cy), cx + w_), (v, cy, cy + w_)) if shape == "triangle" else ((u, cx - half, cx + half), (v, cy - R, cy + R))
                        (_, ulo, uhi), (_, vlo, vhi) = lims
                        f_ = sympy.lambdify((u, v), cz, "mpmath")
                        with mpmath.workdps(20):
                            quad_ = mpmath.quad(lambda vv: mpmath.quad(lambda uu: f_(uu, vv), [sympy.lambdify(v, ulo, "mpmath")(vv), sympy.lambdify(v, uhi, "mpmath")(vv)]),
                                                [mpmath.mpf(sympy.N(vlo, 20)), mpmath.mpf(sympy.N(vhi, 20))])
                        with harness.Watchdog(60):
                            plain = sympy.integrate(sympy.integrate(cz, lims[0]), lims[1])
                        if close(numeric(circ, coefvals), quad_, "1e-8") and not close(numeric(plain, {}), quad_, "1e-8") and close(numeric(plain, {}), numeric(surf, coefvals), "1e-8"):
                            key = "stokes:dependent-limits:sympy-definite-integral-wrong"
                            extra = f" [own quadrature of the curl flux = {mpmath.nstr(quad_, 12)} agrees with the curve; plain sympy.integrate of the same integrand and limits gives {plain}]"
                    except Exception:  # pylint: disable=broad-except
                        pass
                rec.violation(key, f"circulation along the curve {str(circ)[:100]} != curl flux through the surface {str(surf)[:100]}{extra}", case)
                return
        except ValueError as e:
            rec.inconc("result not numeric: " + str(e)[:60])
            return
    rec.hit("quadrature")
    cv = numeric(circ, coefvals)
    rec.case(case, nontrivial=abs(want) > 1e-9)
    if abs(want) <= 1e-9:
        rec.add("trivial_zero_setups")
    if not close(cv, want, "1e-8"):
        rec.violation(f"quadrature:circulation:{shape}", f"circulation_along_curve = {cv} but own quadrature of F.dl = {want}", case)
        return
    if len(rec.samples) < 2:
        rec.sample(dict(case, circulation=str(circ)[:80], via_surface=str(surf)[:80], quadrature=str(want)))


def green_setup(run: Run, cs, idx):
    import sympy
    from sympy import cos, sin, pi
    from symplyphysics import Vector
    from symplyphysics.core.fields.vector_field import VectorField
    from symplyphysics.core.fields import analysis as A
    r, rec = run.r, run.rec
    t, s = sympy.symbols("t s", real=True)
    bs = cs.coord_system.base_scalars()
    symbolic = idx % 3 == 0
    F3, coefs = make_field(r, cs, symbolic=symbolic)
    # planar field; in half of the set-ups its components also depend on z (the region lies in the plane z = 0, where a
    # two-component point is located, so the theorem is the one of the field restricted to that plane)
    zdep = r.random() < 0.5
    F = list(F3[:2]) if zdep else [c.subs(bs[2], 0) for c in F3[:2]]
    if zdep and any(c.has(bs[2]) for c in F):
        rec.hit("planar_field_depending_on_z")
    coefvals = {c: sympy.Rational(r.randint(-30, 30), 10) for c in coefs}
    field = VectorField.from_vector(Vector(F, cs))
    cx, cy = r.choice([0, 1, -2]), r.choice([0, 1, 2])
    R = r.choice([1, 2])
    a, b = r.choice([1, 1, 2]), r.choice([1, 1, 2])
    gamma = [cx + a * R * cos(t), cy + b * R * sin(t)]
    sigma = [cx + a * s * cos(t), cy + b * s * sin(t)]
    case = {"theorem": "green", "field": [str(c) for c in F], "centre": [cx, cy], "R": R, "ab": [a, b], "coefficients": {str(k): str(v) for k, v in coefvals.items()}}
    from symplyphysics.laws.fields import flux_is_integral_across_curve as LF
    fl = run.call("flux_across_curve", lambda: run.via_law("flux_across_curve", lambda: A.flux_across_curve(field, gamma, (t, 0, 2 * pi)),
                  lambda: LF.flux_law(field, [c.subs(t, LF.parameter) for c in gamma], 0, 2 * pi), coefvals, case), case)
    fb = run.call("flux_across_surface_boundary", lambda: A.flux_across_surface_boundary(field, sigma, (s, 0, R), (t, 0, 2 * pi)), case)
    if fl is None or fb is None:
        return
    rec.hit("green")
    forbidden = list(bs) + [t, s]
    ok1 = run.check_free("flux_across_curve", fl, forbidden, case)
    ok2 = run.check_free("flux_across_surface_boundary", fb, forbidden, case)
    if not (ok1 and ok2):
        return
    want = quad_curve(F + [0], bs, gamma, t, 0, 2 * mpmath.pi, coefvals, flux=True)
    rec.case(case, nontrivial=abs(want) > 1e-9)
    try:
        v1, v2 = numeric(fl, coefvals), numeric(fb, coefvals)
    except ValueError as e:
        rec.inconc("result not numeric: " + str(e)[:60])
        return
    rec.hit("quadrature")
    if not close(v1, v2, "1e-8"):
        rec.violation("green", f"outward flux across the curve {v1} != divergence integral over the region {v2}", case)
        return
    if not close(v1, want, "1e-8"):
        rec.violation("quadrature:flux", f"flux_across_curve = {v1} but own quadrature of F.n ds = {want}", case)
        return
    # the divergence integral must not depend on how the region is parametrised (orientation of the parameters, their order)
    variants = {"clockwise-angle": ([cx + a * s * sin(t), cy + b * s * cos(t)], (s, 0, R), (t, 0, 2 * pi)),
                "angle-as-first-parameter": ([cx + a * s * cos(t), cy + b * s * sin(t)], (t, 0, 2 * pi), (s, 0, R))}
    vname = ("clockwise-angle", "angle-as-first-parameter")[idx % 2]
    sig, l1, l2 = variants[vname]
    fv = run.call(f"flux_across_surface_boundary[{vname}]", lambda: A.flux_across_surface_boundary(field, sig, l1, l2), case)
    if fv is not None:
        rec.hit("region_reparametrised")
        try:
            if not close(numeric(fv, coefvals), v2, "1e-8"):
                rec.violation(f"green:region-parametrisation:{vname}", f"divergence integral over the same region parametrised {vname} gives {numeric(fv, coefvals)} instead of {v2}", dict(case, variant=vname))
                return
        except ValueError:
            pass
    if idx % 2 == 0 and not symbolic:
        u = sympy.Symbol("u", real=True)
        rec.hit("reparametrisation")
        f2 = run.call("flux_across_curve[t->t^2]", lambda: A.flux_across_curve(field, [c.subs(t, u**2) for c in gamma], (u, 0, sympy.sqrt(2 * pi))), case)
        if f2 is not None:
            try:
                if not close(numeric(f2, coefvals), v1, "1e-7"):
                    rec.violation("reparametrisation:t->t^2", f"flux {v1} becomes {numeric(f2, coefvals)} under t->t^2", case)
            except ValueError:
                pass


def gauss_setup(run: Run, cs, idx):
    import sympy
    from symplyphysics import Vector
    from symplyphysics.core.fields.vector_field import VectorField
    from symplyphysics.core.fields import analysis as A
    r, rec = run.r, run.rec
    t1, t2 = sympy.symbols("t1 t2", real=True)
    bs = cs.coord_system.base_scalars()
    symbolic = idx % 3 == 0
    F, coefs = make_field(r, cs, trig=r.random() < 0.5, symbolic=symbolic)
    coefvals = {c: sympy.Rational(r.randint(-30, 30), 10) for c in coefs}
    field = VectorField.from_vector(Vector(F, cs))
    x0, y0, z0 = r.choice([0, -1, 1]), r.choice([0, -1, 2]), r.choice([0, 1, -2])
    x1, y1, z1 = x0 + r.choice([1, 2]), y0 + r.choice([1, 3]), z0 + r.choice([1, 2])
    case = {"theorem": "gauss", "field": [str(c) for c in F], "box": [x0, x1, y0, y1, z0, z1], "coefficients": {str(k): str(v) for k, v in coefvals.items()}}
    vol = run.call("flux_across_volume_boundary", lambda: A.flux_across_volume_boundary(field, (x0, x1), (y0, y1), (z0, z1)), case)
    faces = [("+z", [t1, t2, z1], (t1, x0, x1), (t2, y0, y1), 1), ("-z", [t1, t2, z0], (t1, x0, x1), (t2, y0, y1), -1),
             ("+x", [x1, t1, t2], (t1, y0, y1), (t2, z0, z1), 1), ("-x", [x0, t1, t2], (t1, y0, y1), (t2, z0, z1), -1),
             ("+y", [t2, y1, t1], (t1, z0, z1), (t2, x0, x1), 1), ("-y", [t2, y0, t1], (t1, z0, z1), (t2, x0, x1), -1)]
    from symplyphysics.laws.fields import flux_is_integral_across_surface as LFS
    total = 0
    for nm, surf, l1, l2, sign in faces:
        def law_face(surf=surf, l1=l1, l2=l2):
            ren = {l1[0]: LFS.parameter1, l2[0]: LFS.parameter2}
            return LFS.flux_law(field, [sympy.sympify(c).subs(ren, simultaneous=True) for c in surf], (l1[1], l1[2]), (l2[1], l2[2]))
        v = run.call("flux_across_surface", lambda: run.via_law("flux_across_surface", lambda: A.flux_across_surface(field, surf, l1, l2), law_face, coefvals, case), case)
        if v is None:
            return
        total = total + sign * v
    if vol is None:
        return
    rec.hit("gauss")
    forbidden = list(bs) + [t1, t2]
    if not (run.check_free("flux_across_volume_boundary", vol, forbidden, case) and run.check_free("flux_across_surface", total, forbidden, case)):
        return
    try:
        v1, v2 = numeric(vol, coefvals), numeric(total, coefvals)
    except ValueError as e:
        rec.inconc("result not numeric: " + str(e)[:60])
        return
    # own quadrature of the divergence over the box
    x, y, z = bs
    div = sum(sympy.diff(F[i], s_) for i, s_ in enumerate((x, y, z))).subs(coefvals)
    f = sympy.lambdify((x, y, z), div, "mpmath")
    with mpmath.workdps(15):
        want = mpmath.quad(f, [x0, x1], [y0, y1], [z0, z1])
    rec.case(case, nontrivial=abs(want) > 1e-9)
    rec.hit("quadrature")
    if not close(v1, v2, "1e-8"):
        rec.violation("gauss", f"sum of the six outward face fluxes {v2} != volume integral of the divergence {v1}", case)
        return
    if not close(v1, want, "1e-6"):
        rec.violation("quadrature:divergence", f"flux_across_volume_boundary = {v1} but own quadrature = {want}", case)


def gauss_curvilinear_setup(run: Run, idx):
    """the volume integral of the divergence over a coordinate box of a cylindrical / spherical system (a wedge of a
    cylinder or of a spherical shell). Cylindrical: the field is a Cartesian polynomial field written in local components;
    reference = own quadrature of its Cartesian divergence (plain sympy.diff) times the Jacobian. Spherical: the field is
    given by simple local components; reference = own quadrature of the outward flux through the six coordinate faces
    (own area elements r^2 sin(polar), r, r sin(polar))."""
    import sympy
    from symplyphysics import Vector, CoordinateSystem
    from symplyphysics.core.fields.vector_field import VectorField
    from symplyphysics.core.fields import analysis as A
    r, rec = run.r, run.rec
    sysname = ("CYLINDRICAL", "SPHERICAL")[idx % 2]
    cs = CoordinateSystem(getattr(CoordinateSystem.System, sysname))
    b = cs.coord_system.base_scalars()
    half = sympy.Rational(1, 2)
    if sysname == "CYLINDRICAL":
        x, y, z = sympy.symbols("x y z", real=True)
        mons = [1, x, y, z, x * y, y * z, x * z, x**2, y**2, z**2]
        Fc = [sum(r.choice([1, -2, 3, half]) * m for m in r.sample(mons, 3)) for _ in range(3)]
        div_c = sum(sympy.diff(Fc[i], v) for i, v in enumerate((x, y, z)))
        to_cart = {x: b[0] * sympy.cos(b[1]), y: b[0] * sympy.sin(b[1]), z: b[2]}
        basis = [(sympy.cos(b[1]), sympy.sin(b[1]), 0), (-sympy.sin(b[1]), sympy.cos(b[1]), 0), (0, 0, 1)]
        lims = [(sympy.Rational(r.randint(0, 2), 2), sympy.Rational(r.randint(3, 5), 2)), (r.choice([0, sympy.pi / 6]), r.choice([sympy.pi / 2, sympy.pi, 2 * sympy.pi])),
                (r.choice([0, -1]), r.choice([1, 2]))]
        Fs_cart = [c.subs(to_cart, simultaneous=True) for c in Fc]
        Fs = [sympy.simplify(sum(Fs_cart[k] * basis[i][k] for k in range(3))) for i in range(3)]
        integrand = sympy.lambdify(list(b), div_c.subs(to_cart, simultaneous=True) * b[0], "mpmath")
        nlims = [[mpmath.mpf(sympy.N(a_, 20)), mpmath.mpf(sympy.N(b_, 20))] for a_, b_ in lims]
        with mpmath.workdps(15):
            want = mpmath.quad(integrand, *nlims)
        desc = [str(c) for c in Fc]
    else:
        # this core orders spherical coordinates (r, azimuth = theta, polar = phi)
        rr, th, ph = b
        trig = [1, sympy.sin(ph), sympy.cos(ph), sympy.sin(th), sympy.cos(th) ** 2, sympy.sin(ph) ** 2]
        Fs = [r.choice([1, -2, 3, half]) * rr ** r.choice([0, 1, 2]) * r.choice(trig) for _ in range(3)]
        lims = [(sympy.Rational(r.randint(1, 2), 2), sympy.Rational(r.randint(3, 5), 2)), (r.choice([0, sympy.pi / 6]), r.choice([sympy.pi / 2, sympy.pi, 2 * sympy.pi])),
                (r.choice([sympy.pi / 6, sympy.pi / 4]), r.choice([sympy.pi / 2, 2 * sympy.pi / 3]))]
        (r0, r1), (t0, t1), (p0, p1) = [[mpmath.mpf(sympy.N(a_, 20)) for a_ in l_] for l_ in lims]
        fr, ft, fp = [sympy.lambdify([rr, th, ph], c, "mpmath") for c in Fs]
        with mpmath.workdps(15):
            want = (mpmath.quad(lambda t_, p_: (fr(r1, t_, p_) * r1 ** 2 - fr(r0, t_, p_) * r0 ** 2) * mpmath.sin(p_), [t0, t1], [p0, p1])
                    + mpmath.quad(lambda r_, p_: (ft(r_, t1, p_) - ft(r_, t0, p_)) * r_, [r0, r1], [p0, p1])
                    + mpmath.quad(lambda r_, t_: (fp(r_, t_, p1) * mpmath.sin(p1) - fp(r_, t_, p0) * mpmath.sin(p0)) * r_, [r0, r1], [t0, t1]))
        desc = [str(c) for c in Fs]
    field = VectorField.from_vector(Vector(Fs, cs))
    case = {"theorem": "gauss", "system": sysname, "field": desc, "box": [[str(a_) for a_ in l_] for l_ in lims]}
    vol = run.call("flux_across_volume_boundary", lambda: A.flux_across_volume_boundary(field, *lims), case)
    if vol is None:
        return
    rec.hit("gauss_curvilinear")
    if not run.check_free("flux_across_volume_boundary", vol, list(b), case):
        return
    rec.case(case, nontrivial=abs(want) > 1e-9)
    try:
        got = numeric(vol, {})
    except ValueError as e:
        rec.inconc("result not numeric: " + str(e)[:60])
        return
    rec.hit("quadrature")
    if not close(got, want, "1e-6"):
        rec.violation(f"quadrature:divergence:{sysname}", f"flux_across_volume_boundary over the {sysname} box {case['box']} = {got} but own quadrature gives {want}", case)


def work(spec, rec):
    from symplyphysics import CoordinateSystem
    r = harness.rng_for("C13", spec["seed"], spec["shard"])
    run = Run(rec, r)
    for i in range(spec["setups"]):
        rec.checkpoint()
        cs = CoordinateSystem(CoordinateSystem.System.CARTESIAN)
        kind = ("stokes", "green", "gauss")[(i + spec["shard"]) % 3]
        idx = i * 16 + spec["shard"]
        try:
            with harness.Watchdog(400):
                {"stokes": stokes_setup, "green": green_setup, "gauss": gauss_setup}[kind](run, cs, idx)
                if kind == "gauss":
                    gauss_curvilinear_setup(run, idx // 16 + spec["shard"])
        except TimeoutError:
            rec.inconc("watchdog around the set-up")


def replay(case, rec):
    rec.note("set-ups are regenerated from (seed, shard); rerun with the same VERIF_SEED: " + str(case)[:300])
