"""C06 - symbolic dimension inference agrees with evaluation on quantities.
Workload: seeded expression trees over dimensioned symbols, applied functions, quantities (zero-valued ones in every
position) and numbers.  Monitor: (expr, dim) / exception of the real collect_expression_and_dimension.
Oracles: refdim (dimension + error condition), numeric value equality of returned vs input expression, commuting diagram
through the real Quantity()."""
from __future__ import annotations

import mpmath

from vf import harness, numeval, refdim, units_ref

RULE = ("seeded random trees (depth<=4 quick, <=6 thorough) over 10 symbols of random declared dimensions, 3 applied "
        "functions, quantities incl. zero-valued/infinite ones, numbers incl. 0/oo/nan; sums/min/max biased towards equal "
        "dimensions; derivatives of applied functions wrt dimensioned symbols; dimensional and dimensionless exponents. Each "
        "tree goes through the real collect_expression_and_dimension; compared: error <=> reference error, dimension == "
        "reference exponent vector (value-aware ANY), returned expression numerically equal to the input (3 random points), "
        "and Quantity(e[symbols:=non-zero quantities]) has the inferred dimension. non-trivial = >=1 operator node and >=1 "
        "dimensional leaf; distinct = distinct srepr.")
RULE = RULE + ' Also: NaN-valued quantities as terms of sums; derivatives with respect to applied functions and to derivatives; native SymPy units and Symbolic wrappers as leaves.'
ASSUMPTIONS = ["vf/refdim.py rules define the reference inference (property statement), leaves via SymPy's dimsys_SI",
               "value equality is judged at 3 random points with 1e-10 relative tolerance"]
N = {"quick": dict(trees=3200, depth=4), "thorough": dict(trees=40000, depth=6)}
SHARD_TIMEOUT = {"quick": 300, "thorough": 2400}
MIN_REACH = {"quick": {"native_unit_or_wrapper_leaf": 300, "dimension_compared": 1200, "error_both": 150, "value_compared": 1000, "diagram_compared": 400,
                       "zero_quantity_in_sum_or_minmax": 40, "derivative": 50, "nan_term_in_sum": 10, "derivative_wrt_function_or_derivative": 10},
             "thorough": {"dimension_compared": 15000, "error_both": 2000, "value_compared": 12000, "diagram_compared": 5000}}


def plan(tier, seed):
    n = N[tier]
    return [{"_label": f"shard{i}", "seed": seed, "shard": i, "trees": n["trees"] // 16, "depth": n["depth"]} for i in range(16)]


class Gen:
    def __init__(self, r):
        import sympy
        from sympy.physics import units
        from sympy.physics.units import Dimension
        from symplyphysics import Quantity, Symbol, Function
        from symplyphysics.core.dimensions import dimension_to_si_unit
        self.sp, self.r = sympy, r
        base = [units.length, units.mass, units.time, units.current, units.temperature]

        def rand_dim():
            d = Dimension(1)
            for b in r.sample(base, r.randint(1, 2)):
                d = d * b ** r.choice([-2, -1, 1, 2])
            return d
        self.dims = [Dimension(1), Dimension(1), units.length, units.time, units.mass, units.velocity, units.force,
                     units.energy] + [rand_dim() for _ in range(4)]
        # s0..s5 positive, s6..s9 real (take negative values too, so that a dropped 0 in Min/Max becomes visible)
        self.syms = [Symbol(f"s{i}", r.choice(self.dims), **({"positive": True} if i < 6 else {"real": True})) for i in range(10)]
        self.funs = [Function(f"f{i}", [self.syms[0]], r.choice(self.dims)) for i in range(3)]
        self.si = dimension_to_si_unit
        self.Quantity = Quantity
        # leaves that carry a dimension without being library symbols: native SymPy units/constants and Symbolic wrappers
        from symplyphysics.core.operations.symbolic import Average, FiniteDifference, ExactDifferential
        self.native = [units.meter, units.second, units.kilogram, units.speed_of_light, units.newton, units.planck]
        self.wrappers = [W(s_) for W, s_ in zip((Average, FiniteDifference, ExactDifferential, Average), self.syms[:4])]

        def q_of(dim, mag):
            return Quantity(mag * dimension_to_si_unit(dim))
        mags = [1, 2.5, -3, sympy.Rational(1, 2), 7, sympy.Float(0.25), -1, 4]
        # finite non-zero quantities: may appear anywhere
        self.qs = [q_of(r.choice(self.dims), r.choice(mags)) for _ in range(12)]
        # zero-valued / infinite quantities: only as direct terms (or direct factors of terms) of Add/Min/Max - the
        # any-dimension rule of the statement; elsewhere (denominators, exponents) they only produce 0/0, 0**0, zoo
        self.zero_qs = [q_of(r.choice(self.dims), m) for m in (0, 0, sympy.Float(0.0), 0)]
        # infinite terms: only as direct terms of the outermost sum/min/max (nested, SymPy's evalf collapses x + oo and the
        # library's is_number() then sees a 'number'; such inputs are outside what the statement describes)
        self.inf_qs = [q_of(r.choice(self.dims), sympy.oo)]
        # NaN-valued quantities (a missing measurement, oo - oo): the third kind of term the statement exempts
        self.nan_qs = [Quantity(sympy.nan, dimension=r.choice(self.dims)), Quantity(float("nan"), dimension=units.length)]

    def leaf(self):
        r, sp = self.r, self.sp
        k = r.random()
        if k < 0.40:
            return r.choice(self.syms)
        if k < 0.46:
            return r.choice(self.native)
        if k < 0.50:
            return r.choice(self.wrappers)
        if k < 0.68:
            return r.choice(self.qs)
        if k < 0.88:
            return sp.Integer(r.choice([0, 1, 2, -1, 3])) if r.random() < 0.7 else r.choice([sp.Rational(1, 2), sp.Float(1.5), sp.Rational(-2, 3), 5, 7])
        return r.choice(self.funs)(r.choice(self.syms))

    def same_dim_args(self, d, n, top=False, nan_ok=False):
        a = self.gen(d - 1)
        out = [a]
        for _ in range(n - 1):
            k = self.r.random()
            if k < 0.5:
                out.append(a * self.r.choice([2, self.sp.Rational(1, 3), -1]) if self.r.random() < 0.5 else a * self.gen(0) / self.nz(self.gen(0)))
            elif k < 0.70:
                z = self.r.choice(self.zero_qs)
                out.append(z if self.r.random() < 0.6 else z * self.r.choice(self.syms))
            elif k < 0.80 and k >= 0.76:
                out.append(self.r.choice([self.sp.Integer(0), self.sp.Float(0.0)]))  # literal zero: any dimension
            elif 0.80 <= k < 0.86 and top and nan_ok:
                out.append(self.r.choice(self.nan_qs))
            elif k < 0.76 and top:
                # (NaN only in sums: SymPy itself refuses Max(nan, x) as 'not comparable')
                out.append(self.r.choice([self.sp.oo, self.inf_qs[0], -self.sp.oo] + (self.nan_qs if nan_ok else [])))
            else:
                out.append(self.gen(d - 1))
        self.r.shuffle(out)
        return out

    def nz(self, e):
        """denominators/exponent bases: avoid literal zero"""
        return self.sp.Integer(3) if e == 0 else e

    def gen(self, d, top=False):
        r, sp = self.r, self.sp
        if d <= 0 or r.random() < 0.22:
            return self.leaf()
        k = r.random()
        if k < 0.27:
            return self.gen(d - 1) * self.gen(d - 1)
        if k < 0.37:
            return self.gen(d - 1) / self.nz(self.gen(d - 1))
        if k < 0.57:
            if top and r.random() < 0.12:
                # several numeric terms kept apart (unevaluated): an any-valued number next to an ordinary one next to a term
                nums = [r.choice([sp.Integer(0), sp.oo, sp.Float(0.0), -sp.oo]), r.choice([sp.Integer(5), sp.pi, sp.Float(2.5), sp.Rational(1, 3)])]
                if r.random() < 0.5:
                    nums.reverse()
                args = nums + [self.gen(d - 1)]
                if r.random() < 0.3:
                    r.shuffle(args)
                return r.choice([sp.Add, sp.Add, sp.Max, sp.Min])(*args, evaluate=False)
            return sp.Add(*self.same_dim_args(d, r.choice([2, 2, 3]), top, nan_ok=True))
        if k < 0.69:
            ex = r.choice([2, -1, sp.Rational(1, 2), 3, sp.Rational(-3, 2), self.leaf()])
            return self.gen(d - 1) ** ex
        if k < 0.76:
            return sp.Abs(self.gen(d - 1))
        if k < 0.88:
            return r.choice([sp.Min, sp.Max])(*self.same_dim_args(d, r.choice([2, 3]), top))
        if k < 0.94:
            f = r.choice(self.funs)
            x = self.syms[0]
            inner = f(x)
            k2 = r.random()
            if k2 < 0.25:    # derivative of a composite expression
                inner = inner * r.choice(self.syms[1:])
            elif k2 < 0.35:
                inner = inner * r.choice(self.qs)
            elif k2 < 0.45:
                inner = inner + f(x) ** 2 / f(x)
            k3 = r.random()
            if k3 < 0.2:      # with respect to an applied function (Euler-Lagrange style dL/dx(t)) ...
                return sp.Derivative(r.choice(self.syms[1:]) * f(x) ** 2 + inner, f(x))
            if k3 < 0.3:      # ... or to a derivative (dL/dv with v = dx/dt)
                v = sp.Derivative(f(x), x)
                return sp.Derivative(r.choice(self.syms[1:]) * v ** 2 / 2, v)
            return sp.Derivative(inner, (x, r.choice([1, 2])))
        return r.choice([sp.sin, sp.exp, sp.cos, sp.log])(self.gen(d - 1) / self.nz(self.gen(d - 1)))


def has_zero_q_in_sum(e, sp, SymQuantity):
    for node in sp.preorder_traversal(e):
        if isinstance(node, (sp.Add, sp.Min, sp.Max)):
            for a in node.args:
                if isinstance(a, SymQuantity) and refdim.canonical_any(a):
                    return True
    return False


def check_tree(e, g, rec, origin, r):
    import sympy
    from sympy.physics.units import Quantity as SymQuantity
    from symplyphysics import errors
    from symplyphysics.core.dimensions import collect_expression_and_dimension
    e = sympy.sympify(e)
    srepr = sympy.srepr(e)
    case = {"expr": str(e)[:300], "srepr": srepr[:1200], "origin": origin}
    # trees whose value is undefined (division by a zero-valued sub-expression, zoo, nan) are outside the statement
    try:
        qsub = {q: sympy.sympify(q.scale_factor) for q in e.atoms(SymQuantity)}
        for node in sympy.preorder_traversal(e):
            if isinstance(node, sympy.Pow) and (node.exp.is_number and node.exp.is_negative or not node.exp.is_number):
                bv = node.base.xreplace(qsub)
                if bv.is_zero:   # 0**negative, 0**f(x): value undefined or not determined
                    rec.add("skipped_undefined_value")
                    return
        # (a NaN-valued quantity as a direct term of a sum/min/max is the exempted term of the statement, not an accident)
        direct_nan = {a for n_ in sympy.preorder_traversal(e) if isinstance(n_, sympy.Add) for a in n_.args
                      if isinstance(a, SymQuantity) and sympy.sympify(a.scale_factor) is sympy.nan}
        if e.xreplace({q: v for q, v in qsub.items() if q not in direct_nan}).has(sympy.zoo, sympy.nan):
            rec.add("skipped_undefined_value")
            return
        if direct_nan:
            rec.hit("nan_term_in_sum")
    except Exception:  # pylint: disable=broad-except
        # SymPy itself refuses to evaluate the tree with the quantities replaced by their values (zoo in Min/Max, ...)
        rec.add("skipped_undefined_value")
        return
    refdim.NONDIRECT_ANY_USED = False
    try:
        rd, rerr = refdim.refdim(e), None
    except refdim.Inhomogeneous as x:
        rd, rerr = None, x.kind
    except refdim.Unsupported as x:
        rec.inconc("reference does not type node: " + str(x)[:40])
        return
    try:
        le, ld = collect_expression_and_dimension(e)
        lerr = None
    except (errors.UnitsError, ValueError) as x:
        le, ld, lerr = None, None, x
    except TypeError as x:
        import traceback
        last = traceback.extract_tb(x.__traceback__)[-1].filename
        # (nested powers multiply exponents, so any symbolic exponent can end up composite inside the Dimension)
        composite = any(isinstance(n, sympy.Pow) and n.exp.free_symbols for n in sympy.preorder_traversal(e))
        if "sympy/physics/units" in last and composite:
            rec.inconc("SymPy cannot expand a dimension raised to a composite symbolic exponent")
            return
        rec.violation(f"crash:{type(x).__name__}", f"collect_expression_and_dimension({str(e)[:200]}) raised {type(x).__name__}: {str(x)[:150]}", case)
        return
    except Exception as x:  # pylint: disable=broad-except
        if type(x).__name__ == "NoConvergence":
            rec.inconc("SymPy/mpmath evalf failed to converge inside the library's is_number()")
            return
        rec.violation(f"crash:{type(x).__name__}", f"collect_expression_and_dimension({str(e)[:200]}) raised {type(x).__name__}: {str(x)[:150]}", case)
        return
    nontriv = any(a.args for a in [e]) and any(getattr(a, "dimension", None) is not None for a in sympy.preorder_traversal(e))
    rec.case(srepr, nontrivial=bool(nontriv))
    if has_zero_q_in_sum(e, sympy, SymQuantity):
        rec.hit("zero_quantity_in_sum_or_minmax")
    if e.has(sympy.Derivative):
        rec.hit("derivative")
        if any(not isinstance(v, sympy.Symbol) for dnode in e.atoms(sympy.Derivative) for v in dnode.variables):
            rec.hit("derivative_wrt_function_or_derivative")
    if any(a in g.native for a in e.atoms(SymQuantity)) or any(a in g.wrappers for a in e.atoms(sympy.Symbol)):
        rec.hit("native_unit_or_wrapper_leaf")
    if rd is None and le is None:
        rec.hit("error_both")
        rec.hit("error:" + rerr)
        return
    if refdim.NONDIRECT_ANY_USED and (le is None or rd is None):
        rec.inconc("disagreement hinges on a term that merely evaluates to zero (zero-ness not visible to the library)")
        return
    if rd is None:
        rec.violation(f"accepts:{rerr}", f"inference accepted {str(e)[:200]} (dim {ld}) but the reference reports {rerr}", case)
        return
    if le is None:
        rec.violation(f"errors:{type(lerr).__name__}:{type(e).__name__}",
                      f"inference raised {type(lerr).__name__} ({str(lerr)[:140]}) on {str(e)[:200]}; reference dimension {refdim.fmt(rd)}", case)
        return
    # dimension
    whole_any = rd == refdim.ANY or refdim.canonical_any(e)
    if not whole_any:
        try:
            lv = refdim.deps(ld)
            same = refdim.deq(lv, rd)
        except Exception as x:  # pylint: disable=broad-except
            rec.inconc("library dimension not expandable: " + type(x).__name__)
            same = None
        if same is not None:
            rec.hit("dimension_compared")
            if not same:
                rec.violation("dimension", f"inferred {ld} for {str(e)[:200]}; reference {refdim.fmt(rd)}", case)
                return
    # value equality of returned expression
    atoms = [a for a in e.atoms(sympy.Symbol) if not isinstance(a, SymQuantity)]
    ok_val = None
    for _ in range(3):
        env = {a: mpmath.mpf(r.randint(300, 3000)) / 1000 * (1 if a.is_positive else r.choice([1, -1])) for a in atoms}
        evl = numeval.Evaluator(env, quantity="scale_factor")
        try:
            v_in = evl.ev(e)
            v_out = evl.ev(sympy.sympify(le))
        except numeval.NotEvaluable:
            ok_val = None
            break
        if not (mpmath.isfinite(v_in) and mpmath.isfinite(v_out)) or abs(v_in) > 1e30:
            ok_val = None
            break
        with mpmath.workdps(16):  # instability filter: the library multiplies 15-digit Floats
            try:
                v16 = numeval.Evaluator(env, quantity="scale_factor").ev(e)
            except numeval.NotEvaluable:
                v16 = None
        if v16 is None or not numeval.close(v_in, v16, rel=mpmath.mpf("1e-10")):
            ok_val = None
            break
        ok_val = numeval.close(v_in, v_out, rel=mpmath.mpf('1e-7'))  # library multiplies 15-digit Floats
        if not ok_val:
            rec.violation("value", f"returned expression {str(le)[:160]} has value {mpmath.nstr(v_out, 12)} but input {str(e)[:160]} has {mpmath.nstr(v_in, 12)}", case)
            return
    if ok_val:
        rec.hit("value_compared")
    else:
        rec.add("value_not_evaluable")
    # commuting diagram
    if e.has(sympy.Derivative) or whole_any:
        return
    for node in sympy.preorder_traversal(e):
        if isinstance(node, sympy.Function) and not isinstance(node, (sympy.core.function.AppliedUndef, sympy.Abs, sympy.Min, sympy.Max)):
            try:
                if not all(refdim.is_dimless(refdim.refdim(a)) for a in node.args):
                    rec.add("diagram_skipped_dimensional_function_args")
                    return
            except (refdim.Inhomogeneous, refdim.Unsupported):
                return
    sub = {}
    for a in atoms:
        mag = sympy.Float(r.randint(300, 3000)) / 1000
        if not hasattr(a, "dimension"):
            rec.add("diagram_skipped_plain_symbol")
            return
        sub[a] = g.Quantity(mag * g.si(a.dimension))
    for fa in e.atoms(sympy.core.function.AppliedUndef):
        mag = sympy.Float(r.randint(300, 3000)) / 1000
        sub[fa] = g.Quantity(mag * g.si(fa.func.dimension))
    try:
        es = e.xreplace(sub)
        q = g.Quantity(es)
    except ValueError as x:
        if "Dimension of" in str(x):
            rec.violation("diagram-refused", f"inference gives {ld} for {str(e)[:160]} but Quantity() of the substituted expression is refused: {str(x)[:140]}", case)
        else:
            rec.add("diagram_quantity_not_numeric")
        return
    except Exception:  # pylint: disable=broad-except
        rec.add("diagram_quantity_other_exception")
        return
    sf = sympy.sympify(q.scale_factor)
    if refdim.canonical_any(q) or not sf.is_finite:
        rec.add("diagram_value_any")
        return
    try:
        num_sub = {a: sympy.sympify(v.scale_factor) for a, v in sub.items()}
        dl = refdim.deps(ld)
        if dl != refdim.ANY:
            dl = {k: sympy.sympify(v).xreplace(num_sub) for k, v in dl.items()}
        dq = refdim.deps(q.dimension)
        same = refdim.deq_num(dq, dl)
    except Exception:  # pylint: disable=broad-except
        return
    rec.hit("diagram_compared")
    if not same:
        rec.violation("diagram-dimension", f"inference gives {ld} for {str(e)[:160]} but evaluation on quantities gives {q.dimension}", case)
        return
    if len(rec.samples) < 6:
        rec.sample({"expr": str(e)[:200], "inferred": str(ld), "reference": refdim.fmt(rd), "returned": str(le)[:120]})


def work(spec, rec):
    refdim.configure(value_aware=True, strict_function_args=False)
    r = harness.rng_for("C06", spec["seed"], spec["shard"])
    g = Gen(r)
    only = spec.get("only")
    for i in range(spec["trees"]):
        rec.checkpoint()
        try:
            with harness.Watchdog(10):
                e = g.gen(r.randint(1, spec["depth"]), top=True)
        except TimeoutError:
            rec.inconc("watchdog in generator")
            continue
        except Exception:  # pylint: disable=broad-except
            rec.add("generator_exceptions")
            continue
        r2 = harness.rng_for("C06v", spec["seed"], spec["shard"], i)
        if only is not None and i != only:
            continue
        try:
            with harness.Watchdog(30):
                check_tree(e, g, rec, {"seed": spec["seed"], "shard": spec["shard"], "index": i, "depth": spec["depth"]}, r2)
        except TimeoutError:
            rec.inconc("watchdog around the case")
        if only is not None:
            rec.note(f"replayed tree #{i}: {str(e)[:400]}")
            break


def replay(case, rec):
    o = case["origin"]
    work({"seed": o["seed"], "shard": o["shard"], "trees": o["index"] + 1, "depth": o["depth"], "only": o["index"]}, rec)
