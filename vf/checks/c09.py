"""C09 - distinct symbols never alias; clones keep dimension and assumptions.
Workload: seeded creation/clone histories with forced display-name collisions and counter bumps across digit boundaries;
full catalogue import under the id-trace monitor.
Monitor: wrapper on next_id (id trace), every created object, results of subs/solve/diff, printed text.
Oracle: uniqueness/monotonicity of the trace, pairwise distinctness, reference clone record, plainly named SymPy twins,
'no internal name in output'."""
from __future__ import annotations

import re

from vf import catalogue, harness

RULE = ("seeded histories (50 steps quick / 400 thorough) of Symbol, IndexedSymbol, Function, Quantity, CoordinateSystem, "
        "VectorSymbol creations and clone_as_symbol/function/indexed with display names from a pool built to collide "
        "('x','x1','x11','T',...), random assumption sets (True and bare False facts, non-commutative), dimensions, subscripts, "
        "interleaved with counter bumps across 9/10, 99/100, 999/1000; after every step: the id trace is strictly increasing "
        "by one per prefix and no name is issued twice, everything created so far is pairwise distinct (==, hash, internal "
        "name), each clone matches the reference record; then random polynomials in same-named symbols are substituted, "
        "differentiated and solved and compared with plainly named SymPy twins; print_expression/code_str/latex_str never "
        "show SYM/FUN/QTY/SYS names. Plus the id trace of a full catalogue import. non-trivial = history with at least one "
        "display-name collision; distinct = (history, step).")
RULE = RULE + " Also: every object kind printed on its own, in a list / tuple, as an indexed element, as the base of an element and as a factor by all three printers; the id trace (strictly increasing per prefix, never reissued) also while the repository's tests run."
ASSUMPTIONS = ["IndexedSymbol(<SymPy symbol>) deliberately reuses the given name (SymPy internals) and is excluded",
               "Symbolic wrappers (Average, FiniteDifference, differentials) are observed and reported separately"]
N = {"quick": dict(histories=208, steps=50), "thorough": dict(histories=3008, steps=400)}
MIN_REACH = {"quick": {"objects_created": 8000, "clones_checked": 1500, "ids_traced": 8000, "noninterference": 300, "printed": 450,
                       "name_collisions": 2000, "catalogue_ids": 900, "digit_boundary_crossed": 100, "printed_single": 3000},
             "thorough": {"objects_created": 500000, "clones_checked": 100000}}
SHARD_TIMEOUT = {"quick": 900, "thorough": 3300}
INTERNAL = re.compile(r"\b(SYM|FUN|QTY|SYS|VEC)\d+\b")
NAMES = ["x", "x1", "x11", "x2", "T", "T1", "r", "m", "x_1", "SYM", "a"]


def plan(tier, seed):
    n = N[tier]
    shards = [{"_label": f"hist{i}", "kind": "histories", "seed": seed, "shard": i, "histories": n["histories"] // 16, "steps": n["steps"]} for i in range(15)]
    shards.append({"_label": "catalogue-trace", "kind": "catalogue", "seed": seed})
    shards.append({"_label": "suite", "kind": "suite", "tier": tier, "_timeout": 2400})
    return shards


class Trace:
    """online monitor of the id generator"""

    def __init__(self, rec):
        from symplyphysics.core.symbols import id_generator
        self.rec = rec
        self.mod = id_generator
        self.last = dict(getattr(id_generator, "_ids", {}) or {})
        self.issued = set()
        self.orig = id_generator.next_id
        trace = self

        def wrapped(base=""):
            v = trace.orig(base)
            trace.observe(base, v)
            return v
        self.wrapped = wrapped

    def attach(self):
        import sys
        n = 0
        for m in list(sys.modules.values()):
            if m is None or not getattr(m, "__name__", "").startswith("symplyphysics"):
                continue
            if getattr(m, "next_id", None) is self.orig:
                setattr(m, "next_id", self.wrapped)
                n += 1
        return n

    def observe(self, base, v):
        self.rec.hit("ids_traced")
        prev = self.last.get(base, 0)
        if v <= prev:  # freshness is what the statement needs: a counter that skips values is fine, one that goes back is not
            self.rec.violation(f"id-trace:not-increasing:{base or 'none'}", f"next_id({base!r}) returned {v} after {prev}", {"prefix": base, "prev": prev, "got": v})
        if (base, v) in self.issued:
            self.rec.violation(f"id-trace:reissued:{base or 'none'}", f"id {base}{v} issued twice", {"prefix": base, "id": v})
        self.issued.add((base, v))
        self.last[base] = v
        if len(str(v)) != len(str(prev)) and prev:
            self.rec.hit("digit_boundary_crossed")


def history(r, rec, trace, steps, hid):
    import sympy
    from sympy.physics import units as U
    from symplyphysics import Symbol, IndexedSymbol, Function, Quantity, CoordinateSystem, clone_as_symbol, clone_as_function, print_expression
    from symplyphysics.core.symbols.symbols import clone_as_indexed
    from symplyphysics.core.symbols.id_generator import next_id
    from symplyphysics.core.experimental.vectors import VectorSymbol
    from symplyphysics.docs.printer_code import code_str
    from symplyphysics.docs.printer_latex import latex_str
    dims = [U.length, U.time, U.mass, U.energy, U.Dimension(1), U.velocity, U.temperature]
    ASSUME = [{}, {"positive": True}, {"real": True}, {"real": True, "integer": False}, {"positive": False}, {"commutative": False},
              {"integer": True, "nonnegative": True}, {"zero": False}, {"negative": True}]
    created = []          # (kind, object, record)
    names_seen = {}
    pool = r.sample(NAMES, r.randint(2, 5))

    def record(kind, obj, rec_):
        created.append((kind, obj, rec_))
        rec.hit("objects_created")
        dn = rec_.get("display")
        if dn is not None:
            if dn in names_seen:
                rec.hit("name_collisions")
            names_seen[dn] = names_seen.get(dn, 0) + 1

    def check_distinct(step):
        kind, new, nrec = created[-1]
        iname = internal_name(new)
        for k2, o2, r2 in created[:-1]:
            same = False
            try:
                same = (o2 == new) and type(o2) is type(new)
            except Exception:  # pylint: disable=broad-except
                same = False
            if same or (o2 is new):
                rec.violation(f"alias:{kind}:{k2}", f"step {step}: newly created {kind} {nrec} compares equal to earlier {k2} {r2}", {"history": hid, "step": step, "new": nrec, "old": r2})
                return False
            n2 = internal_name(o2)
            if iname is not None and n2 == iname and type(o2).__name__ == type(new).__name__:
                rec.violation(f"shared-internal-name:{kind}", f"step {step}: {kind} {nrec} shares internal name {iname} with {r2}", {"history": hid, "step": step, "new": nrec, "old": r2})
                return False
        return True

    def internal_name(o):
        n = getattr(o, "name", None)
        return str(n) if n is not None else None

    for step in range(steps):
        k = r.random()
        a = dict(r.choice(ASSUME))
        d = r.choice(dims)
        nm = r.choice(pool)
        try:
            if k < 0.08:
                for _ in range(r.choice([1, 8, 9, 90, 99, 900])):
                    next_id(r.choice(["SYM", "FUN", "QTY"]))
                continue
            if k < 0.30:
                latex = r.choice([None, "\\" + nm])
                o = Symbol(nm, d, display_latex=latex, **a)
                record("Symbol", o, {"display": nm, "latex": latex or nm, "dim": str(d), "assume": a})
            elif k < 0.38:
                o = IndexedSymbol(nm, None, d, **{kk: v for kk, v in a.items() if kk != "commutative"})
                record("IndexedSymbol", o, {"display": nm, "dim": str(d)})
            elif k < 0.48:
                o = Function(nm, [sympy.Symbol("q")], d)
                record("Function", o, {"display": nm, "dim": str(d)})
            elif k < 0.58:
                o = Quantity(r.choice([1, 2, 1]) * U.meter, **({"display_symbol": nm} if r.random() < 0.5 else {}))
                record("Quantity", o, {"display": None})
            elif k < 0.62:
                existing = [oo for kk, oo, rr in created if kk == "CoordinateSystem"]
                if existing and r.random() < 0.5:
                    from symplyphysics import coordinates_transform
                    src_cs = r.choice(existing)
                    # a transformed system (possibly of the same type) is a new coordinate system, too
                    o = coordinates_transform(src_cs, r.choice([src_cs.coord_system_type] + list(CoordinateSystem.System)))
                else:
                    o = CoordinateSystem(r.choice(list(CoordinateSystem.System)))
                record("CoordinateSystem", o, {"display": None})
                # distinctness of coordinate systems: object identity, inner SymPy system and its base scalars
                for kk, oo, rr in created[:-1]:
                    if kk == "CoordinateSystem" and (oo is o or oo.coord_system is o.coord_system or
                                                     set(oo.coord_system.base_scalars()) & set(o.coord_system.base_scalars())):
                        rec.violation("alias:CoordinateSystem", f"step {step}: a newly created coordinate system shares its identity / base scalars with an earlier one", {"history": hid, "step": step})
                        return
                continue
            elif k < 0.68:
                o = VectorSymbol(nm, d)
                record("VectorSymbol", o, {"display": nm, "dim": str(d)})
            else:
                sources = [(kk, oo, rr) for kk, oo, rr in created if kk in ("Symbol", "IndexedSymbol")]
                if not sources:
                    continue
                sk, src, srec = r.choice(sources)
                sub = r.choice([None, None, "0", "max", "1"])
                pass_assume = dict(r.choice(ASSUME)) if r.random() < 0.35 else {}
                which = r.choice(["symbol", "symbol", "function", "indexed"])
                names_kw = {}
                if r.random() < 0.3:
                    names_kw["display_symbol"] = r.choice(["Q", "q2", "w"])
                if r.random() < 0.3:
                    names_kw["display_latex"] = r.choice(["\\Theta", "Q", "\\mathcal{W}"])
                if which == "symbol":
                    o = clone_as_symbol(src, subscript=sub, **names_kw, **pass_assume)
                    kind = "Symbol"
                elif which == "function":
                    o = clone_as_function(src, [sympy.Symbol("q")], subscript=sub, **names_kw)
                    kind = "Function"
                else:
                    o = clone_as_indexed(src, **names_kw, **{kk: v for kk, v in pass_assume.items() if kk != "commutative"})
                    sub = None
                    kind = "IndexedSymbol"
                exp_code = names_kw.get("display_symbol", srec["display"]) + (f"_{sub}" if sub else "")
                exp_latex = names_kw.get("display_latex", srec.get("latex", srec["display"])) + (f"_{{{sub}}}" if sub else "")
                rec.hit("clones_checked")
                case = {"history": hid, "step": step, "source": srec, "clone": which, "subscript": sub, "passed_assumptions": pass_assume, "names": names_kw}
                if str(o.dimension) != srec["dim"]:
                    rec.violation(f"clone-loses-dimension:{which}", f"clone of {srec} has dimension {o.dimension}", case)
                if o.display_name != exp_code:
                    rec.violation(f"clone-code-name:{which}", f"clone of {srec} with subscript {sub} has code name {o.display_name!r}, expected {exp_code!r}", case)
                if o.display_latex != exp_latex:
                    rec.violation(f"clone-latex-name:{which}", f"clone of {srec} with subscript {sub} has LaTeX name {o.display_latex!r}, expected {exp_latex!r}", case)
                if which == "symbol":
                    want = pass_assume if pass_assume else None
                    if want is None:
                        if o.assumptions0 != src.assumptions0:
                            diff = {kk: (src.assumptions0.get(kk), o.assumptions0.get(kk)) for kk in set(src.assumptions0) | set(o.assumptions0) if src.assumptions0.get(kk) != o.assumptions0.get(kk)}
                            rec.violation("clone-loses-assumptions", f"clone of {srec} without explicit assumptions differs from the source in {diff}", case)
                    else:
                        ref = sympy.Symbol("ref", **want).assumptions0
                        if o.assumptions0 != ref:
                            rec.violation("clone-ignores-passed-assumptions", f"clone with assumptions {want} has {o.assumptions0}", case)
                record(kind, o, {"display": exp_code, "latex": exp_latex, "dim": srec["dim"], "assume": pass_assume or srec.get("assume", {})})
        except Exception as e:  # pylint: disable=broad-except
            rec.violation(f"creation-raises:{type(e).__name__}", f"step {step} raised {type(e).__name__}: {str(e)[:120]}", {"history": hid, "step": step})
            continue
        if not check_distinct(step):
            return
    collided = any(v > 1 for v in names_seen.values())
    rec.case((hid, steps), nontrivial=collided)
    # non-interference on same-named, commutative scalar symbols
    syms = [o for kk, o, rr in created if kk == "Symbol" and o.is_commutative is not False]
    by_name = {}
    for s in syms:
        by_name.setdefault(s.display_name, []).append(s)
    groups = [g for g in by_name.values() if len(g) >= 2]
    for g in groups[:3]:
        g = g[:3]
        twins = [sympy.Symbol(f"tw{i}", **{kk: v for kk, v in s.assumptions0.items() if kk in ("positive", "real", "negative", "integer")}) for i, s in enumerate(g)]
        coef = [r.randint(1, 5) for _ in g]
        def poly(vs):
            e = sympy.Integer(r_const)
            for i, v in enumerate(vs):
                e = e + coef[i] * v ** (i + 1)
            return e + vs[0] * vs[-1]
        r_const = r.randint(-4, 4)
        e_lib, e_tw = poly(g), poly(twins)
        back = dict(zip(g, twins))
        rec.hit("noninterference")
        case = {"history": hid, "names": [s.display_name for s in g]}
        try:
            if sympy.expand(sympy.diff(e_lib, g[0]).xreplace(back) - sympy.diff(e_tw, twins[0])) != 0:
                rec.violation("interference:diff", f"d/d{g[0].display_name} of a polynomial in same-named symbols differs from the twin computation", case)
            if sympy.expand(e_lib.subs(g[0], 7).xreplace(back) - e_tw.subs(twins[0], 7)) != 0:
                rec.violation("interference:subs", "substituting one of several same-named symbols affected another", case)
            s_lib = sympy.solve(sympy.Eq(e_lib, 0), g[-1])
            s_tw = sympy.solve(sympy.Eq(e_tw, 0), twins[-1])
            if len(s_lib) != len(s_tw) or any(sympy.simplify(x.xreplace(back) - y) != 0 for x, y in zip(s_lib, s_tw)):
                # order of roots may differ: compare as sets numerically
                vals = {t: sympy.Rational(r.randint(1, 9), 3) for t in twins}
                A = sorted(complex(sympy.N(x.xreplace(back).subs(vals))) .real for x in s_lib if sympy.N(x.xreplace(back).subs(vals)).is_real)
                B = sorted(complex(sympy.N(y.subs(vals))).real for y in s_tw if sympy.N(y.subs(vals)).is_real)
                if len(A) != len(B) or any(abs(p - q) > 1e-9 * max(1, abs(p)) for p, q in zip(A, B)):
                    rec.violation("interference:solve", f"solve w.r.t. one of several same-named symbols differs from the twin computation: {s_lib} vs {s_tw}", case)
        except Exception as e:  # pylint: disable=broad-except
            rec.inconc("non-interference computation raised " + type(e).__name__)
    # printing: display names only
    printable = [o for kk, o, rr in created if kk in ("Symbol",) and o.is_commutative is not False][:4]
    funs = [o for kk, o, rr in created if kk == "Function"][:2]
    qs = [o for kk, o, rr in created if kk == "Quantity"][:2]
    if printable:
        e = sum((i + 2) * s ** (i + 1) for i, s in enumerate(printable))
        for f in funs:
            e = e + f(printable[0])
        for q in qs:
            e = e * q if r.random() < 0.5 else e + q * printable[0] / printable[0]
        for nm_, fn in (("print_expression", print_expression), ("code_str", code_str), ("latex_str", latex_str)):
            rec.hit("printed")
            try:
                text = fn(e)
            except Exception as ex:  # pylint: disable=broad-except
                rec.inconc(f"{nm_} raised {type(ex).__name__}")
                continue
            m = INTERNAL.search(text)
            if m and not any(m.group(0) in (rr.get("display") or "") for _, _, rr in created):
                rec.violation(f"internal-name-printed:{nm_}:{m.group(1)}", f"{nm_} shows the internal name {m.group(0)}: {text[:200]}", {"history": hid, "printer": nm_})
            norm = lambda t: re.sub(r"[_{}\\ ]", "", t)
            for s in printable:
                shown = s.display_latex if nm_ == "latex_str" else s.display_name
                if shown not in text and norm(shown) not in norm(text):
                    rec.violation(f"display-name-missing:{nm_}", f"{nm_} output {text[:160]!r} lacks the display name {shown!r}", {"history": hid, "printer": nm_})
                    break
    # ... also when an object reaches a printer on its own, inside a container, as an indexed element or as its base
    idx = sympy.Idx("i_p")
    singles = []
    for kk in ("Symbol", "IndexedSymbol", "Function"):
        for _, o, rr in [c for c in created if c[0] == kk][:2]:
            singles.append((kk + ":bare", o))
            if kk == "IndexedSymbol":
                try:
                    el = o[idx]
                    singles.append((kk + ":element", el))
                    singles.append((kk + ":element.base", el.base))
                    singles.append((kk + ":factor", 2 * el + o[idx] ** 2))
                except Exception:  # pylint: disable=broad-except
                    pass
            if kk == "Function" and printable:
                singles.append((kk + ":applied", o(printable[0])))
    # an indexed symbol created with its own index is printed with that index when it stands alone
    try:
        own_idx = sympy.Idx("j_own")
        ix = IndexedSymbol("Xi", own_idx, created[0][1].dimension if created and hasattr(created[0][1], "dimension") else None) if False else IndexedSymbol("Xi", own_idx)
        for nm_, fn in (("code_str", code_str), ("latex_str", latex_str)):
            rec.hit("own_index_printed")
            text = str(fn(ix))
            if "j_own" not in text.replace("{", "").replace("}", "").replace("\\", "") and "j_{own}" not in text:
                rec.violation(f"indexed-symbol-own-index-lost:{nm_}", f"{nm_}(IndexedSymbol('Xi', Idx('j_own'))) = {text!r}: the symbol's own index is not shown", {"history": hid, "printer": nm_})
    except Exception as ex:  # pylint: disable=broad-except
        rec.inconc("own-index probe raised " + type(ex).__name__)
    exprs = [o for lb, o in singles if lb != "Function:bare"]   # (an unapplied function is not an expression)
    if len(exprs) >= 2:
        singles.append(("list", exprs[:3]))
        singles.append(("tuple", tuple(exprs[:2])))
    for label, o in singles:
        for nm_, fn in (("print_expression", print_expression), ("code_str", code_str), ("latex_str", latex_str)):
            if label == "Function:bare" and nm_ == "print_expression":
                continue  # an unapplied function is not an expression: print_expression documents applied functions only
            try:
                text = fn(o)
            except Exception:  # pylint: disable=broad-except
                rec.add("single_object_print_raised")
                continue
            rec.hit("printed_single")
            m = INTERNAL.search(str(text))
            if m and not any(m.group(0) in (rr.get("display") or "") for _, _, rr in created):
                rec.violation(f"internal-name-printed:{nm_}:{m.group(1)}:{label}", f"{nm_}({label}) shows the internal name {m.group(0)}: {str(text)[:200]}", {"history": hid, "printer": nm_, "what": label})
    if len(rec.samples) < 2:
        rec.sample({"history": hid, "steps": steps, "pool": pool, "objects": len(created), "collisions": {k: v for k, v in names_seen.items() if v > 1}})


def wrappers(rec, r):
    """Symbolic wrappers of distinct same-named symbols (reported under their own key)"""
    from sympy.physics import units as U
    from symplyphysics import Symbol
    from symplyphysics.core.operations.symbolic import Average, FiniteDifference, ExactDifferential, InexactDifferential
    for W in (Average, FiniteDifference, ExactDifferential, InexactDifferential):
        x1, x2 = Symbol("x", U.length), Symbol("x", U.time)
        w1 = W(x1)
        d1 = str(w1.dimension)
        w2 = W(x2)
        rec.case(("wrapper", W.__name__))
        rec.hit("wrappers_checked")
        if w1 is w2 or w1 == w2 or str(w1.dimension) != d1 or w1.factor is not x1:
            rec.violation(f"wrapper-alias:{W.__name__}", f"{W.__name__}(x[length]) and {W.__name__}(x[time]) of two distinct same-named symbols are one object "
                          f"(equal={w1 == w2}); the first wrapper's dimension changed from {d1} to {w1.dimension}", {"wrapper": W.__name__})


def work(spec, rec):
    if spec["kind"] == "suite":
        harness.run_suite("C09", harness.SUITE_QUICK if spec["tier"] == "quick" else harness.SUITE_FULL, rec)
        rec.case(("suite", spec["tier"]))
        return
    import symplyphysics  # noqa pylint: disable=unused-import
    trace = Trace(rec)
    trace.attach()
    if spec["kind"] == "catalogue":
        before = rec.reach.get("ids_traced", 0)
        for name in catalogue.module_names():
            rec.checkpoint(30)
            try:
                catalogue.import_module(name)
            except Exception:  # pylint: disable=broad-except
                pass
            trace.attach()  # modules imported later may bind next_id by name
        rec.reach["catalogue_ids"] = rec.reach.get("ids_traced", 0) - before
        rec.case(("catalogue-import",))
        wrappers(rec, harness.rng_for("C09w", spec["seed"]))
        return
    r = harness.rng_for("C09", spec["seed"], spec["shard"])
    for h in range(spec["histories"]):
        rec.checkpoint()
        try:
            with harness.Watchdog(300):
                history(r, rec, trace, spec["steps"], f"{spec['shard']}:{h}")
        except TimeoutError:
            rec.inconc("watchdog around a history")


def replay(case, rec):
    rec.note("histories are regenerated from (seed, shard); rerun with the same VERIF_SEED: " + str(case)[:300])
    wrappers(rec, harness.rng_for("C09w", 0))
