"""C08 - the approximate-equality oracle accepts only same-dimension values within tolerance.
Workload: generated operand pairs straddling the tolerance boundary (guard band 1e-6..1e-1), complex parts, unit
re-spellings, operand swaps, bare numbers, vectors of unequal length.  Monitor: verdict (return / exception class) of the
real assert_equal / approx_equal_quantities / approx_equal_numbers / assert_equal_vectors.  Oracle: reference predicate
on exact rationals."""
from __future__ import annotations

from fractions import Fraction as Fr

from vf import harness, units_ref

RULE = ("generated pairs (a, b=a+delta) with delta = tol*(1+-eps), eps in {1e-6,1e-3,1e-1}, |a| in 1e-30..1e30, both signs, "
        "complex with the offending part real or imaginary, zero operands, tolerances: default / stated relative / stated "
        "absolute / both; each pair written in random units of the same dimension, plus a different-dimension twin, an "
        "operand swap (no abs tol), a unit re-spelling, bare-number variants and vector variants. Reference predicate: "
        "must_fail iff dims inequivalent or some part differs by more than max(abs, rel*max|.|)*(1+1e-9); must_pass iff every "
        "part differs by <= abs (abs given) or <= rel*max|.| (no abs); the thin band between is not generated. "
        "non-trivial = delta != 0 and within a factor 1.2 of the tolerance; distinct = distinct (a, delta, tolerances, units, api).")
RULE = RULE + ' Also: quantities of information and of a user-defined Dimension against dimensionless quantities, frequencies and bare numbers with equal numbers: must fail; equal amounts of information in other units: must pass.'
RULE = RULE + ' Also: one-sided complex pairs (one operand real, the other with the same real part and a non-zero imaginary part), both operand orders.'
ASSUMPTIONS = ["vf/units_ref.py table for unit values", "exact rational arithmetic for the reference predicate"]
N = {"quick": 6400, "thorough": 112000}
MIN_REACH = {"quick": {"zero_relative_tolerance": 100, "must_pass": 1500, "must_fail": 1500, "complex": 800, "one_sided_complex": 300, "dimension_mismatch": 300, "swap": 500,
                       "respell": 500, "bare_number": 200, "vector": 200, "vector_length_mismatch": 50, "foreign_dimension": 100},
             "thorough": {"must_pass": 25000, "must_fail": 25000}}
SHARD_TIMEOUT = {"quick": 300, "thorough": 2400}

DIM_GROUPS = {
    "length": ["meter", "kilometer", "centimeter", "millimeter", "inch", "foot", "mile"],
    "time": ["second", "minute", "hour", "millisecond", "day"],
    "mass": ["kilogram", "gram", "milligram", "tonne", "pound"],
    "energy": ["joule", "electronvolt"],
    "pressure": ["pascal", "bar", "atmosphere", "psi"],
    "dimensionless": ["percent", "permille", "radian", "degree"],
    "current": ["ampere"],
    "temperature": ["kelvin"],
    "power": ["watt"],
    "charge": ["coulomb"],
}


MASS_BEARING = ("mass", "energy", "pressure", "power")


def plan(tier, seed):
    return _plan_core(tier, seed) + [{"_label": "suite", "kind": "suite", "tier": tier, "_timeout": 2400}]


def _plan_core(tier, seed):
    n = N[tier]
    return [{"_label": f"shard{i}", "seed": seed, "shard": i, "cases": n // 16} for i in range(16)]


def frac_pow10(k):
    return Fr(10) ** k


def rand_mag(r):
    return Fr(r.randint(1000, 9999), 1000) * frac_pow10(r.choice([-30, -12, -6, -3, -1, 0, 0, 0, 1, 3, 6, 12, 30]))


def make_quantity(si_value_re: Fr, si_value_im: Fr, unit_name: str):
    """quantity with given SI value written in the given unit (exact rationals)"""
    import sympy
    from symplyphysics import Quantity
    uval, _ = units_ref.UNITS[unit_name]
    u = units_ref.sympy_unit(unit_name)
    def rat(x):
        x = x / uval
        return sympy.Rational(x.numerator, x.denominator)
    val = rat(si_value_re) + rat(si_value_im) * sympy.I if si_value_im != 0 else rat(si_value_re)
    return Quantity(val * u)


def ref_verdict(a, b, rel, abs_):
    """a, b: (re, im) Fractions; returns 'pass' | 'fail' | 'band'"""
    relv = Fr(1, 1000) if rel is None else rel
    worst = "pass"
    for x, y in zip(a, b):
        d = abs(x - y)
        m = max(abs(x), abs(y))
        upper = max(abs_ if abs_ is not None else Fr(0), relv * m)
        if d > upper * (1 + Fr(1, 10**9)):
            return "fail"
        lower = abs_ if abs_ is not None else relv * m
        if not d <= lower * (1 - Fr(1, 10**9)) and not d == 0:
            worst = "band"
    return worst


def observe(fn):
    try:
        r = fn()
        return ("return", r)
    except AssertionError as x:
        return ("AssertionError", str(x)[:80])
    except Exception as x:  # pylint: disable=broad-except
        return (type(x).__name__, str(x)[:80])


def gen_case(r):
    group = r.choice(list(DIM_GROUPS))
    mode = r.choice(["default", "rel", "abs", "both"])
    if mode in ("abs", "both"):
        # an absolute tolerance is applied to scale factors, which SymPy keeps relative to the *gram*: for mass-bearing
        # dimensions "absolute tolerance in SI units" is not what the library means, so those are left out (see DESIGN)
        group = r.choice([g for g in DIM_GROUPS if g not in MASS_BEARING])
    units = DIM_GROUPS[group]
    rel = None if mode in ("default", "abs") else Fr(r.choice([1, 5, 20, 100]), 10**r.choice([3, 4, 6]))
    if rel is not None and r.random() < 0.15:
        rel = Fr(0)  # "exact" / absolute-tolerance-only comparison
    relv = Fr(1, 1000) if rel is None else rel
    a_re = rand_mag(r) * r.choice([1, -1])
    cplx = r.random() < 0.3
    a_im = rand_mag(r) * r.choice([1, -1]) * (Fr(1) if r.random() < 0.7 else frac_pow10(r.choice([-3, 3]))) if cplx else Fr(0)
    if r.random() < 0.04:
        a_re = Fr(0)
    abs_ = None
    if mode in ("abs", "both"):
        abs_ = max(abs(a_re), abs(a_im), Fr(1, 10**30)) * Fr(r.choice([1, 3, 30, 300]), 10**r.choice([2, 3, 5]))
        if r.random() < 0.08:
            abs_ = Fr(0)
    part = r.choice(["re", "im"]) if cplx else "re"
    base = a_re if part == "re" else a_im
    eps = Fr(1, 10**r.choice([6, 3, 1]))
    want = r.choice(["pass", "fail"])
    # tolerance on the chosen part (relative to the larger magnitude -> solve approximately, then let ref_verdict decide)
    if abs_ is not None and want == "pass":
        tol = abs_
    else:
        tol = max(abs_ or Fr(0), relv * abs(base) / (1 - relv) if want == "fail" else relv * abs(base))
    delta = tol * (1 + eps if want == "fail" else 1 - eps) * r.choice([1, -1])
    if tol == 0:  # exact comparison requested
        delta = abs(base) * Fr(r.choice([1, 50, 900]), 10**6) * r.choice([1, -1]) if want == "fail" else Fr(0)
    if r.random() < 0.05:
        delta = Fr(0)
    b_re, b_im = (a_re + delta, a_im) if part == "re" else (a_re, a_im + delta)
    return {"group": group, "ua": r.choice(units), "ub": r.choice(units), "a": [str(a_re), str(a_im)], "b": [str(b_re), str(b_im)],
            "rel": None if rel is None else str(rel), "abs": None if abs_ is None else str(abs_), "part": part, "eps": str(eps),
            "want": want}


def run_case(c, rec, r):
    import sympy
    from sympy.physics import units as U
    from symplyphysics import assert_equal, assert_equal_vectors, QuantityVector, Quantity
    from symplyphysics.core import approx
    a = (Fr(c["a"][0]), Fr(c["a"][1]))
    b = (Fr(c["b"][0]), Fr(c["b"][1]))
    rel = None if c["rel"] is None else Fr(c["rel"])
    abs_ = None if c["abs"] is None else Fr(c["abs"])
    verdict = ref_verdict(a, b, rel, abs_)
    if verdict == "band" or (verdict == "pass" and rel is not None and rel == 0 and not abs_):
        # (exact equality across unit spellings is not decidable in floating point: only the must-fail side is used)
        rec.add("band_cases_skipped")
        return
    kw = {}
    if rel is not None:
        kw["relative_tolerance"] = float(rel)
    if abs_ is not None:
        kw["absolute_tolerance"] = float(abs_)
    try:
        qa = make_quantity(a[0], a[1], c["ua"])
        qb = make_quantity(b[0], b[1], c["ub"])
    except Exception as x:  # pylint: disable=broad-except
        rec.inconc("could not build operands: " + type(x).__name__)
        return
    cplx = a[1] != 0 or b[1] != 0
    delta = max(abs(a[0] - b[0]), abs(a[1] - b[1]))
    rec.case(c, nontrivial=delta != 0)
    rec.hit("must_pass" if verdict == "pass" else "must_fail")
    if cplx:
        rec.hit("complex")
    if rel is not None and rel == 0:
        rec.hit("zero_relative_tolerance")

    def judge(api, obs, expect, variant=""):
        passed = obs[0] == "return" and obs[1] is not False
        if api.startswith("approx_equal"):
            passed = obs == ("return", True)
        if expect == "pass" and not passed:
            rec.violation(f"rejects-in-tolerance:{api}{variant}", f"{api}{variant} rejected ({obs}) a pair that must pass: {c}", c)
            return False
        if expect == "fail" and passed:
            rec.violation(f"accepts-out-of-tolerance:{api}{variant}:{'imag' if c['part'] == 'im' else 'real'}:{'abs' if abs_ is not None else 'rel'}",
                          f"{api}{variant} accepted a pair that must fail: {c}", c)
            return False
        return True

    o1 = observe(lambda: assert_equal(qa, qb, **kw))
    judge("assert_equal", o1, verdict)
    o2 = observe(lambda: approx.approx_equal_quantities(qa, qb, **kw))
    judge("approx_equal_quantities", o2, verdict)
    if not cplx:
        o3 = observe(lambda: approx.approx_equal_numbers(float(a[0]), float(b[0]), **kw))
        judge("approx_equal_numbers", o3, verdict)
    # swap (symmetric without absolute tolerance)
    if abs_ is None:
        rec.hit("swap")
        judge("assert_equal", observe(lambda: assert_equal(qb, qa, **kw)), verdict, "[swapped]")
    # re-spell either operand in other units: same verdict
    rec.hit("respell")
    ua2 = r.choice(DIM_GROUPS[c["group"]])
    qa2 = make_quantity(a[0], a[1], ua2)
    judge("assert_equal", observe(lambda: assert_equal(qa2, qb, **kw)), verdict, "[respelled]")
    # different dimension twin: same numbers, other dimension -> must not pass whatever the values
    other = r.choice([g for g in DIM_GROUPS if g != c["group"] and not {g, c["group"]} <= {"dimensionless"}])
    if a[0] == 0 and a[1] == 0:
        return  # zero matches any dimension
    qx = make_quantity(a[0], a[1], r.choice(DIM_GROUPS[other]))
    rec.hit("dimension_mismatch")
    od = observe(lambda: assert_equal(qa, qx, **kw))
    if od[0] == "return":
        rec.violation("accepts-dimension-mismatch:assert_equal", f"assert_equal accepted {c['group']} vs {other} with equal numbers: {c}", c)
    od2 = observe(lambda: approx.approx_equal_quantities(qa, qx, **kw))
    if od2 == ("return", True):
        rec.violation("accepts-dimension-mismatch:approx_equal_quantities", f"approx_equal_quantities accepted {c['group']} vs {other}: {c}", c)
    # dimension= must not override the dimension of a Quantity rhs
    if r.random() < 0.3:
        dim_a = qa.dimension
        od3 = observe(lambda: assert_equal(qa, qx, dimension=dim_a, **kw))
        rec.hit("dimension_kw_with_quantity_rhs")
        if od3[0] == "return":
            rec.violation("accepts-dimension-mismatch:dimension-kw", f"assert_equal(qa, q_other, dimension=dim(qa)) accepted {c['group']} vs {other}: {c}", c)
    # bare numbers
    if not cplx and c["group"] not in ("dimensionless", "mass", "energy", "pressure", "power") and r.random() < 0.25:
        rec.hit("bare_number")
        ob = observe(lambda: assert_equal(qa, float(a[0]), **kw))
        if ob[0] == "return":
            rec.violation("accepts-bare-number-without-dimension", f"assert_equal(quantity[{c['group']}], bare number) passed without dimension=: {c}", c)
        ob2 = observe(lambda: assert_equal(float(a[0]), qa, **kw))
        if ob2[0] == "return":
            rec.violation("accepts-bare-number-lhs", f"assert_equal(bare number, quantity[{c['group']}]) passed: {c}", c)
        # with the explicit dimension the number is compared with the scale factor (units without mass: scale factor == SI value)
        ob3 = observe(lambda: assert_equal(qa, float(b[0]), dimension=qa.dimension, **kw))
        judge("assert_equal", ob3, verdict, "[bare rhs + dimension=]")
    # vectors
    if r.random() < 0.12:
        rec.hit("vector")
        n = r.randint(1, 3)
        same = [make_quantity(rand_mag(r), Fr(0), r.choice(DIM_GROUPS[c["group"]])) for _ in range(n - 1)]
        k = r.randrange(n)
        va = QuantityVector(same[:k] + [qa] + same[k:])
        vb = QuantityVector(same[:k] + [qb] + same[k:])
        judge("assert_equal_vectors", observe(lambda: assert_equal_vectors(va, vb, **kw)), verdict)
        # unequal lengths must not pass, even when the common prefix is equal
        rec.hit("vector_length_mismatch")
        extra = make_quantity(Fr(0) if r.random() < 0.5 else rand_mag(r), Fr(0), r.choice(DIM_GROUPS[c["group"]]))
        vlong = QuantityVector(list(va.components) + [extra])
        for x, y, nm in ((va, vlong, "short-vs-long"), (vlong, va, "long-vs-short")):
            ol = observe(lambda: assert_equal_vectors(x, y, **kw))
            if ol[0] == "return":
                rec.violation("accepts-vector-length-mismatch", f"assert_equal_vectors passed for lengths {len(x.components)} vs {len(y.components)} ({nm})", c)
    if len(rec.samples) < 6:
        rec.sample(dict(c, reference=verdict, observed=o1[0]))


def foreign_dimension_cases(rec, r):
    """dimensions outside the seven SI base ones (information; a user-defined Dimension): inequivalent to everything but
    themselves, whatever the numbers"""
    import sympy
    from sympy.physics import units as U
    from sympy.physics.units import Dimension
    from symplyphysics import Quantity, assert_equal
    from symplyphysics.core import approx
    info = {"bit": 1, "byte": 8, "kibibyte": 8192}
    money = Dimension("money")
    for _ in range(30):
        a, b = r.choice(list(info)), r.choice(list(info))
        n = r.randint(1, 500)
        qa = Quantity(n * info[b] * getattr(U, a))       # = n*info[a]*info[b] bit
        qb = Quantity(n * info[a] * getattr(U, b))       # the same amount of information written in the other unit
        c = {"foreign": f"{n * info[b]} {a} vs {n * info[a]} {b}"}
        rec.case(("foreign", str(c)))
        rec.hit("foreign_dimension")
        o = observe(lambda: assert_equal(qa, qb))
        if o[0] != "return":
            rec.violation("rejects-in-tolerance:information", f"assert_equal rejected equal amounts of information {c}: {o}", c)
        sf = qa.scale_factor
        twins = [("a dimensionless quantity", Quantity(sf)), ("a frequency", Quantity(sf * U.hertz)), ("a bare number", float(sf)),
                 ("a user-defined dimension", Quantity(sf, dimension=money))]
        for label, other in twins:
            rec.hit("dimension_mismatch")
            for x, y, nm in ((qa, other, "lhs"), (other, qa, "rhs")):
                if isinstance(x, float):
                    continue
                o2 = observe(lambda: assert_equal(x, y))
                if o2[0] == "return":
                    rec.violation("accepts-dimension-mismatch:information", f"assert_equal accepted a quantity of information ({nm}) against {label} with the same number: {c}", c)
                if not isinstance(y, float):
                    o3 = observe(lambda: approx.approx_equal_quantities(x, y))
                    if o3 == ("return", True):
                        rec.violation("accepts-dimension-mismatch:information:approx_equal_quantities", f"approx_equal_quantities accepted a quantity of information ({nm}) against {label}: {c}", c)


def work(spec, rec):
    if spec.get("kind") == "suite":
        harness.run_suite("C08", harness.SUITE_QUICK if spec["tier"] == "quick" else harness.SUITE_FULL, rec)
        rec.case(("suite", spec["tier"]))
        return
    r = harness.rng_for("C08", spec["seed"], spec["shard"])
    if spec["shard"] < 4:
        foreign_dimension_cases(rec, r)
    for i in range(spec["cases"]):
        rec.checkpoint()
        c = gen_case(r)
        r2 = harness.rng_for("C08c", harness.h(c))
        try:
            with harness.Watchdog(20):
                run_case(c, rec, r2)
        except TimeoutError:
            rec.inconc("watchdog")
        if i % 4 == 0 and Fr(c["a"][0]) != 0:
            # one-sided complex pairs: one operand real, the other with the same real part and an imaginary part of its own
            # (no draw from the main stream; the reference verdict decides, both operand orders)
            a_re = Fr(c["a"][0])
            b_im = a_re * (Fr(1), Fr(1, 2), Fr(3), Fr(1, 100))[(i // 4) % 4]
            for first, second in (([str(a_re), "0"], [str(a_re), str(b_im)]), ([str(a_re), str(b_im)], [str(a_re), "0"])):
                c1 = dict(c, a=first, b=second, part="im", want="fail", one_sided=True)
                rec.hit("one_sided_complex")
                try:
                    with harness.Watchdog(20):
                        run_case(c1, rec, harness.rng_for("C08c", harness.h(c1)))
                except TimeoutError:
                    rec.inconc("watchdog")


def replay(case, rec):
    run_case(case, rec, harness.rng_for("C08c", harness.h(case)))
    rec.note("replayed: " + str(case)[:400])
