"""C12 - gradient, divergence and curl are the true operators in all three systems.
Workload: the real operators on (i) generic undefined-function fields (one symbolic execution per system covers all smooth
fields) and (ii) random concrete fields in the three systems with 0..3 components.
Oracle: operator identities; Cartesian operators written with plain sympy.diff, projected on the local orthonormal basis."""
from __future__ import annotations

import math

from vf import geom_ref as G
from vf import harness

RULE = ("(i) identities curl(grad f)=0 and div(curl F)=0 with generic undefined functions of the three base scalars, in each of "
        "the three systems (simplify==0 component-wise and numeric evaluation with concrete stand-in functions); (ii) random "
        "concrete Cartesian fields (polynomial x trig in all three coordinates): own Cartesian grad/div/curl (plain sympy.diff), "
        "re-expressed in the curvilinear coordinates and projected on the local basis (e_r, e_azimuth, e_z) / (e_r, e_azimuth, "
        "e_polar) as this core orders them, must equal the library's cylindrical/spherical result at random points; (iii) fields "
        "with k<3 components (depending on all coordinates) equal the zero-padded field, 4 components refused by curl. "
        "non-trivial = field depends on all three coordinates; distinct = distinct field.")
RULE = RULE + ' (iv) sparse fields given by their local components (uniform, single-coordinate, absent coordinates) against a numeric Cartesian reference: F_i(q(p)) e_i(q(p)) with own transforms, differentiated with mpmath.diff at 30 digits and projected on the local basis.'
ASSUMPTIONS = ["vf/geom_ref.py local bases; sympy.diff for the Cartesian reference operators"]
N = {"quick": 32, "thorough": 416}
MIN_REACH = {"quick": {"identity": 6, "gradient_compared": 100, "divergence_compared": 100, "curl_compared": 100, "padding": 60, "refusal": 3, "sparse_compared": 500, "uniform_local_components": 60},
             "thorough": {"identity": 6, "gradient_compared": 1500, "divergence_compared": 1500, "curl_compared": 1500}}
SHARD_TIMEOUT = {"quick": 900, "thorough": 3000}


def plan(tier, seed):
    n = N[tier]
    shards = [{"_label": f"fields{i}", "kind": "fields", "seed": seed, "shard": i, "fields": n // 16} for i in range(16)]
    shards += [{"_label": f"identities-{s}", "kind": "identities", "system": s, "seed": seed} for s in ("CARTESIAN", "CYLINDRICAL", "SPHERICAL")]
    return shards


def fl(x):
    import sympy
    return float(sympy.N(x, 30))


def identities(system_name, rec, r):
    import sympy
    from symplyphysics import CoordinateSystem, Vector
    from symplyphysics.core.fields.scalar_field import ScalarField
    from symplyphysics.core.fields.vector_field import VectorField
    from symplyphysics.core.fields.operators import gradient_operator, divergence_operator, curl_operator
    cs = CoordinateSystem(getattr(CoordinateSystem.System, system_name))
    b = cs.coord_system.base_scalars()
    f = sympy.Function("f")(*b)
    F = [sympy.Function(n)(*b) for n in ("F1", "F2", "F3")]
    # concrete stand-ins for the numeric re-check
    conc = {"f": lambda a, bb, c: a**2 * sympy.sin(bb) + c * a + sympy.cos(c * bb), "F1": lambda a, bb, c: a * c + sympy.sin(bb),
            "F2": lambda a, bb, c: a**2 + c * sympy.cos(bb), "F3": lambda a, bb, c: sympy.sin(a) * bb + c**2}

    def num_zero(e):
        e2 = e
        for name, fn in conc.items():
            e2 = e2.replace(sympy.Function(name), fn)
        e2 = e2.doit()
        for _ in range(3):
            vals = {b[0]: sympy.Rational(r.randint(5, 30), 10), b[1]: sympy.Rational(r.randint(2, 28), 10), b[2]: sympy.Rational(r.randint(3, 28), 10)}
            v = complex(sympy.N(e2.subs(vals), 30))
            if abs(v) > 1e-12:
                return False, v
        return True, 0
    # curl(grad f) = 0
    case = {"system": system_name, "identity": "curl(grad f)=0"}
    rec.case(case)
    rec.hit("identity")
    g = gradient_operator(ScalarField.from_expression(f, cs))
    c = curl_operator(VectorField.from_vector(g)).apply_to_basis()
    for i, comp in enumerate(c.components):
        s = sympy.simplify(comp)
        nz, v = num_zero(comp)
        if s != 0 and not nz or not nz:
            rec.violation(f"curl-grad:{system_name}:{i}", f"curl(grad f)[{i}] in {system_name} = {str(s)[:200]} (numeric {v})", case)
        elif s != 0:
            rec.note(f"simplify could not reduce curl(grad f)[{i}] in {system_name} but it is numerically 0")
    # div(curl F) = 0
    case = {"system": system_name, "identity": "div(curl F)=0"}
    rec.case(case)
    rec.hit("identity")
    cf = curl_operator(VectorField.from_vector(Vector(F, cs)))
    d = divergence_operator(cf)
    s = sympy.simplify(d)
    nz, v = num_zero(d)
    if not nz:
        rec.violation(f"div-curl:{system_name}", f"div(curl F) in {system_name} = {str(s)[:200]} (numeric {v})", case)
    elif s != 0:
        rec.note(f"simplify could not reduce div(curl F) in {system_name} but it is numerically 0")
    rec.sample(case)


def rand_expr(r, syms):
    import sympy
    terms = []
    for _ in range(r.randint(2, 3)):
        t = sympy.Integer(r.randint(-3, 3) or 2)
        for s in syms:
            t = t * s ** r.choice([0, 1, 1, 2])
        if r.random() < 0.5:
            t = t * r.choice([sympy.sin, sympy.cos])(r.choice(syms))
        terms.append(t)
    # make sure every coordinate is involved so that no entry of the formulas is invisible
    return sum(terms) + syms[0] * syms[1] * syms[2] + sympy.sin(syms[0] + 2 * syms[1] - syms[2])


def field_cases(r, rec, nfields):
    import sympy
    from symplyphysics import CoordinateSystem, Vector
    from symplyphysics.core.fields.scalar_field import ScalarField
    from symplyphysics.core.fields.vector_field import VectorField
    from symplyphysics.core.fields.operators import gradient_operator, divergence_operator, curl_operator
    S = CoordinateSystem.System
    x, y, z = sympy.symbols("x y z", real=True)
    for _ in range(nfields):
        rec.checkpoint()
        phi_c = rand_expr(r, (x, y, z))
        Fc = [rand_expr(r, (x, y, z)) for _ in range(3)]
        grad_c = [sympy.diff(phi_c, s) for s in (x, y, z)]
        div_c = sum(sympy.diff(Fc[i], s) for i, s in enumerate((x, y, z)))
        curl_c = [sympy.diff(Fc[2], y) - sympy.diff(Fc[1], z), sympy.diff(Fc[0], z) - sympy.diff(Fc[2], x), sympy.diff(Fc[1], x) - sympy.diff(Fc[0], y)]
        case = {"scalar_field": str(phi_c), "vector_field": [str(c) for c in Fc]}
        rec.case(case)
        for sysname in ("CARTESIAN", "CYLINDRICAL", "SPHERICAL"):
            cs = CoordinateSystem(getattr(S, sysname))
            b = cs.coord_system.base_scalars()
            if sysname == "CARTESIAN":
                to_cart = {x: b[0], y: b[1], z: b[2]}
                basis = lambda p: ((1, 0, 0), (0, 1, 0), (0, 0, 1))
                sym_basis = [(1, 0, 0), (0, 1, 0), (0, 0, 1)]
                point = lambda p: p
                cart = lambda p: p
            elif sysname == "CYLINDRICAL":
                to_cart = {x: b[0] * sympy.cos(b[1]), y: b[0] * sympy.sin(b[1]), z: b[2]}
                sym_basis = [(sympy.cos(b[1]), sympy.sin(b[1]), 0), (-sympy.sin(b[1]), sympy.cos(b[1]), 0), (0, 0, 1)]
                basis = lambda p: G.cyl_basis(p[1])
                cart = lambda p: G.cyl_to_cart(*p)
            else:
                to_cart = {x: b[0] * sympy.sin(b[2]) * sympy.cos(b[1]), y: b[0] * sympy.sin(b[2]) * sympy.sin(b[1]), z: b[0] * sympy.cos(b[2])}
                # this core orders spherical components (r, azimuth=theta, polar=phi)
                sym_basis = [(sympy.sin(b[2]) * sympy.cos(b[1]), sympy.sin(b[2]) * sympy.sin(b[1]), sympy.cos(b[2])),
                             (-sympy.sin(b[1]), sympy.cos(b[1]), 0),
                             (sympy.cos(b[2]) * sympy.cos(b[1]), sympy.cos(b[2]) * sympy.sin(b[1]), -sympy.sin(b[2]))]
                def basis(p):
                    e_r, e_pol, e_az = G.sph_basis(p[1], p[2])
                    return (e_r, e_az, e_pol)
                cart = lambda p: G.sph_to_cart(*p)
            # the same fields written in the system's own coordinates / local components
            phi_s = phi_c.subs(to_cart, simultaneous=True)
            Fs_cart = [c.subs(to_cart, simultaneous=True) for c in Fc]
            Fs = [sum(Fs_cart[k] * sym_basis[i][k] for k in range(3)) for i in range(3)]
            # the three ways a field can be given: from_expression / from_vector, a stored expression, a point function
            way = r.choice(["from", "stored", "callable"])
            rec.hit("construction:" + way)

            def subs_point(e_, p_):
                e_ = sympy.sympify(e_)
                for i_, sc in enumerate(b):
                    e_ = e_.subs(sc, p_.coordinate(i_))
                return e_
            if way == "from":
                sfield = ScalarField.from_expression(phi_s, cs)
                vfield = VectorField.from_vector(Vector(Fs, cs))
            elif way == "stored":
                sfield = ScalarField(phi_s, cs)
                vfield = VectorField(list(Fs), cs)
            else:
                sfield = ScalarField(lambda p_, e_=phi_s: subs_point(e_, p_), cs)
                vfield = VectorField(lambda p_, es_=tuple(Fs): [subs_point(e_, p_) for e_ in es_], cs)
            try:
                with harness.Watchdog(120):
                    g_lib = gradient_operator(sfield)
                    d_lib = divergence_operator(vfield)
                    c_lib = curl_operator(vfield).apply_to_basis()
            except TimeoutError:
                rec.inconc("watchdog in operators")
                continue
            except Exception as e:  # pylint: disable=broad-except
                rec.violation(f"operator-raises:{sysname}:{type(e).__name__}", f"operator raised {type(e).__name__}: {str(e)[:100]}", case)
                continue
            for _p in range(4):
                if sysname == "CARTESIAN":
                    p = (r.uniform(-2, 2), r.uniform(-2, 2), r.uniform(-2, 2))
                elif sysname == "CYLINDRICAL":
                    p = (r.uniform(0.3, 3), r.uniform(-3, 3), r.uniform(-2, 2))
                else:
                    p = (r.uniform(0.3, 3), r.uniform(-3, 3), r.uniform(0.2, 2.9))
                pc = cart(p)
                vals_s = dict(zip(b, p))
                vals_c = dict(zip((x, y, z), pc))
                bas = basis(p)
                want_g = [fl(v.subs(vals_c)) for v in grad_c]
                want_c = [fl(v.subs(vals_c)) for v in curl_c]
                want_d = fl(div_c.subs(vals_c))
                got_g = [fl(v.subs(vals_s)) for v in g_lib.components]
                got_c = [fl(v.subs(vals_s)) for v in c_lib.components]
                got_d = fl(sympy.sympify(d_lib).subs(vals_s))
                proj = lambda vec: [G.dot3(vec, bas[i]) for i in range(3)]
                rec.hit("gradient_compared")
                rec.hit("divergence_compared")
                rec.hit("curl_compared")
                bad = False
                for i, (a, w) in enumerate(zip(got_g, proj(want_g))):
                    if not G.close(a, w, 1e-7):
                        rec.violation(f"gradient:{sysname}:{i}", f"gradient[{i}] in {sysname} at {p}: library {a}, Cartesian reference projected {w}; f = {phi_c}", dict(case, system=sysname))
                        bad = True
                if not G.close(got_d, want_d, 1e-7):
                    rec.violation(f"divergence:{sysname}", f"divergence in {sysname} at {p}: library {got_d}, Cartesian reference {want_d}; F = {case['vector_field']}", dict(case, system=sysname))
                    bad = True
                for i, (a, w) in enumerate(zip(got_c, proj(want_c))):
                    if not G.close(a, w, 1e-7):
                        rec.violation(f"curl:{sysname}:{i}", f"curl[{i}] in {sysname} at {p}: library {a}, Cartesian reference projected {w}; F = {case['vector_field']}", dict(case, system=sysname))
                        bad = True
                if bad:
                    break
            # (iii) fewer components behave as zero-padded
            for k in range(0, 3):
                rec.hit("padding")
                short = VectorField.from_vector(Vector(Fs[:k], cs))
                padded = VectorField.from_vector(Vector(Fs[:k] + [0] * (3 - k), cs))
                try:
                    ds, dp = divergence_operator(short), divergence_operator(padded)
                    cshort, cpad = curl_operator(short).apply_to_basis(), curl_operator(padded).apply_to_basis()
                except Exception as e:  # pylint: disable=broad-except
                    rec.violation(f"padding-raises:{sysname}:{k}", f"{k}-component field raised {type(e).__name__}: {str(e)[:100]}", dict(case, system=sysname, components=k))
                    continue
                p = (r.uniform(0.4, 2), r.uniform(0.3, 2.5), r.uniform(0.3, 2.5))
                vals_s = dict(zip(b, p))
                if not G.close(fl(sympy.sympify(ds).subs(vals_s)), fl(sympy.sympify(dp).subs(vals_s)), 1e-9):
                    rec.violation(f"padding-divergence:{sysname}:{k}", f"divergence of the {k}-component field differs from the zero-padded one in {sysname}", dict(case, system=sysname, components=k))
                cs_, cp_ = [fl(v.subs(vals_s)) for v in cshort.components], [fl(v.subs(vals_s)) for v in cpad.components]
                cs_ += [0.0] * (3 - len(cs_))
                cp_ += [0.0] * (3 - len(cp_))
                if not all(G.close(a, w, 1e-9) for a, w in zip(cs_, cp_)):
                    rec.violation(f"padding-curl:{sysname}:{k}", f"curl of the {k}-component field {cs_} differs from the zero-padded one {cp_} in {sysname}", dict(case, system=sysname, components=k))
            rec.hit("refusal")
            try:
                curl_operator(VectorField.from_vector(Vector(Fs + [1], cs)))
                rec.violation(f"curl-4-components-not-refused:{sysname}", f"curl of a 4-component field was not refused in {sysname}", dict(case, system=sysname))
            except ValueError:
                pass
        if len(rec.samples) < 2:
            rec.sample(case)


def sparse_cases(r, rec, nfields):
    """fields given directly by their local components, most of them *sparse*: uniform components, components depending on a
    single coordinate, absent coordinates - the inputs on which a shortcut ('nothing to differentiate') or a swapped term of
    a curvilinear formula shows. Reference: the Cartesian vector F_i(q(p)) e_i(q(p)) built with own transforms, differentiated
    numerically (mpmath, 30 digits) in Cartesian space and projected on the local basis."""
    import mpmath as mp
    import sympy
    from symplyphysics import CoordinateSystem, Vector
    from symplyphysics.core.fields.scalar_field import ScalarField
    from symplyphysics.core.fields.vector_field import VectorField
    from symplyphysics.core.fields.operators import gradient_operator, divergence_operator, curl_operator
    S = CoordinateSystem.System
    k1 = sympy.Symbol("k_1", real=True)

    def to_curv(sysname, X):
        x_, y_, z_ = X
        if sysname == "CARTESIAN":
            return (x_, y_, z_)
        if sysname == "CYLINDRICAL":
            return (mp.sqrt(x_ * x_ + y_ * y_), mp.atan2(y_, x_), z_)
        rr = mp.sqrt(x_ * x_ + y_ * y_ + z_ * z_)
        return (rr, mp.atan2(y_, x_), mp.acos(z_ / rr))   # (r, azimuth, polar): the order of this core

    def basis_at(sysname, q):
        if sysname == "CARTESIAN":
            return ((1, 0, 0), (0, 1, 0), (0, 0, 1))
        az = q[1]
        if sysname == "CYLINDRICAL":
            return ((mp.cos(az), mp.sin(az), 0), (-mp.sin(az), mp.cos(az), 0), (0, 0, 1))
        pol = q[2]
        return ((mp.sin(pol) * mp.cos(az), mp.sin(pol) * mp.sin(az), mp.cos(pol)), (-mp.sin(az), mp.cos(az), 0),
                (mp.cos(pol) * mp.cos(az), mp.cos(pol) * mp.sin(az), -mp.sin(pol)))

    for _ in range(nfields):
        rec.checkpoint()
        for sysname in ("CYLINDRICAL", "SPHERICAL", "CARTESIAN"):
            cs = CoordinateSystem(getattr(S, sysname))
            b = cs.coord_system.base_scalars()
            pool = [sympy.Integer(1), sympy.Integer(-2), k1, sympy.Rational(3, 2), b[0], b[1], b[2], b[0] ** 2, sympy.sin(b[1]), sympy.cos(b[2]),
                    1 / b[0], b[0] * sympy.sin(b[2]), k1 * b[2], b[1] * b[2], sympy.Integer(0)]
            style = r.choice(["uniform", "single-coordinate", "mixed", "mixed"])
            if style == "uniform":
                Fs = [r.choice([sympy.Integer(1), sympy.Integer(-2), k1, sympy.Rational(3, 2), sympy.Integer(0)]) for _ in range(3)]
                if all(c == 0 for c in Fs):
                    Fs[0] = k1
            elif style == "single-coordinate":
                c_ = r.choice(b)
                Fs = [r.choice([c_, c_ ** 2, sympy.sin(c_), 1 + c_, k1 * c_, sympy.Integer(1)]) for _ in range(3)]
            else:
                Fs = [r.choice(pool) * r.choice([1, 1, b[r.randrange(3)]]) for _ in range(3)]
            phi_s = r.choice(pool[4:14]) + r.choice([0, k1, b[r.randrange(3)]])
            kval = mp.mpf(r.randint(5, 25)) / 10
            ncomp = r.choice([3, 3, 3, 2, 1])
            case = {"system": sysname, "local_components": [str(c) for c in Fs[:ncomp]], "scalar_field": str(phi_s), "style": style, "k_1": str(kval)}
            rec.case(case)
            rec.hit("sparse_fields")
            if style == "uniform":
                rec.hit("uniform_local_components")
            Fn = [sympy.lambdify(list(b) + [k1], c, "mpmath") for c in (Fs[:ncomp] + [sympy.Integer(0)] * (3 - ncomp))]
            phin = sympy.lambdify(list(b) + [k1], phi_s, "mpmath")
            try:
                with harness.Watchdog(120):
                    vfield = VectorField.from_vector(Vector(Fs[:ncomp], cs))
                    d_lib = sympy.sympify(divergence_operator(vfield))
                    c_lib = curl_operator(vfield).apply_to_basis()
                    g_lib = gradient_operator(ScalarField.from_expression(phi_s, cs))
            except TimeoutError:
                rec.inconc("watchdog in operators")
                continue
            except Exception as e:  # pylint: disable=broad-except
                rec.violation(f"operator-raises:{sysname}:{type(e).__name__}", f"operator raised {type(e).__name__}: {str(e)[:100]}", case)
                continue

            def Fcart(X, i):
                q = to_curv(sysname, X)
                bas = basis_at(sysname, q)
                return sum(Fn[j](*q, kval) * bas[j][i] for j in range(3))

            def phic(X):
                return phin(*to_curv(sysname, X), kval)
            for _p in range(2):
                if sysname == "CARTESIAN":
                    q0 = (r.uniform(-2, 2), r.uniform(-2, 2), r.uniform(-2, 2))
                elif sysname == "CYLINDRICAL":
                    q0 = (r.uniform(0.5, 3), r.uniform(-2.8, 2.8), r.uniform(-2, 2))
                else:
                    q0 = (r.uniform(0.5, 3), r.uniform(-2.8, 2.8), r.uniform(0.4, 2.7))
                X0 = {"CARTESIAN": lambda q: q, "CYLINDRICAL": lambda q: G.cyl_to_cart(*q), "SPHERICAL": lambda q: G.sph_to_cart(*q)}[sysname](q0)
                X0 = tuple(mp.mpf(v) for v in X0)
                with mp.workdps(30):
                    def d(f, j):
                        order = [0, 0, 0]
                        order[j] = 1
                        return mp.diff(lambda x_, y_, z_: f((x_, y_, z_)), X0, tuple(order), h=mp.mpf("1e-8"))
                    J = [[d(lambda X, i=i: Fcart(X, i), j) for j in range(3)] for i in range(3)]   # J[i][j] = dF_i/dx_j
                    want_d = J[0][0] + J[1][1] + J[2][2]
                    want_c = (J[2][1] - J[1][2], J[0][2] - J[2][0], J[1][0] - J[0][1])
                    want_g = tuple(d(phic, j) for j in range(3))
                    bas = basis_at(sysname, tuple(mp.mpf(v) for v in q0))
                    proj = lambda vec: [sum(vec[i] * bas[j][i] for i in range(3)) for j in range(3)]
                    vals = dict(zip(b, q0))
                    vals[k1] = kval
                    got_d = mp.mpf(str(sympy.N(d_lib.subs(vals), 25)))
                    got_c = [mp.mpf(str(sympy.N(sympy.sympify(v).subs(vals), 25))) for v in c_lib.components]
                    got_c += [mp.mpf(0)] * (3 - len(got_c))
                    got_g = [mp.mpf(str(sympy.N(sympy.sympify(v).subs(vals), 25))) for v in g_lib.components]
                    got_g += [mp.mpf(0)] * (3 - len(got_g))
                    cl = lambda a_, w_: abs(a_ - w_) <= mp.mpf("1e-6") * max(1, abs(a_), abs(w_))
                    rec.hit("sparse_compared")
                    if not cl(got_d, want_d):
                        rec.violation(f"divergence:{sysname}:sparse", f"divergence of the field with local components {case['local_components']} in {sysname} at {q0}: library {mp.nstr(got_d, 10)}, numeric Cartesian reference {mp.nstr(want_d, 10)}", case)
                        break
                    bad = [i for i, (a_, w_) in enumerate(zip(got_c, proj(want_c))) if not cl(a_, w_)]
                    if bad:
                        rec.violation(f"curl:{sysname}:{bad[0]}:sparse", f"curl[{bad[0]}] of the field with local components {case['local_components']} in {sysname} at {q0}: library {mp.nstr(got_c[bad[0]], 10)}, numeric Cartesian reference {mp.nstr(proj(want_c)[bad[0]], 10)}", case)
                        break
                    bad = [i for i, (a_, w_) in enumerate(zip(got_g, proj(want_g))) if not cl(a_, w_)]
                    if bad:
                        rec.violation(f"gradient:{sysname}:{bad[0]}:sparse", f"gradient[{bad[0]}] of {phi_s} in {sysname} at {q0}: library {mp.nstr(got_g[bad[0]], 10)}, numeric Cartesian reference {mp.nstr(proj(want_g)[bad[0]], 10)}", case)
                        break


def work(spec, rec):
    r = harness.rng_for("C12", spec["seed"], spec["_label"])
    if spec["kind"] == "identities":
        try:
            with harness.Watchdog(600):
                identities(spec["system"], rec, r)
        except TimeoutError:
            rec.inconc("watchdog in symbolic identities", {"system": spec["system"]})
        return
    field_cases(r, rec, spec["fields"])
    sparse_cases(r, rec, spec["fields"] * 4)


def replay(case, rec):
    rec.note("regenerate with the same VERIF_SEED: " + str(case)[:300])
    for s in ("CARTESIAN", "CYLINDRICAL", "SPHERICAL"):
        identities(s, rec, harness.rng_for("C12", "replay"))
