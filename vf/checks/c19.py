"""C19 - documentation generation is total, faithful and leaves no global state.
Workload: the real entry point docs/build.py main(["-R","-q","-g",tmp]) run in fresh interpreters under different
pre-histories, hash seeds and directory orders.
Monitor: flag-transition trace (wrappers on disable/reset_sympy_evaluation, find_members_and_functions, _process_law), the
set and content of generated pages, role resolution, a post-run battery of computations.
Oracle: own source-tree walk, re-rendering of the normally imported module's equations (C17/C18 readers), byte equality
between runs, battery of a fresh process."""
from __future__ import annotations

import ast
import json
import os
import re
import shutil
import subprocess
import sys
import tempfile

from vf import catalogue, harness, printsem

RULE = ("runs of the real generator in fresh processes: canonical; after a full catalogue import; after a batch of "
        "computations; with another PYTHONHASHSEED and a permuted os.walk order (thorough: more orders/seeds and every "
        "top-level package alone). Checked per run: no exception; evaluation flag True whenever control returns to the builder, "
        "between modules and at exit; page set == own walk of the source tree (docstring with a section break => documented); "
        "no placeholder left; for every documented member of every law page the :code: string parses (C17 reader) to the "
        "value of the normally imported module's object, the LaTeX block is balanced and (where the C18 reader covers it) "
        "value-equal, every symbol block equals (display name, LaTeX name, dimension) of the imported attribute; no "
        ":symbols:/:quantity_notation: role left and every produced :attr: target exists; runs are byte-identical; the post-run "
        "battery equals the battery of a fresh process. evaluations = pages + members + runs; distinct = distinct (page, member).")
RULE = RULE + ' Also: :attr: targets resolved against what the generated pages declare (py:currentmodule + py:data); documented members of package __init__ files expected on the package page; partial generations of single packages (thorough).'
ASSUMPTIONS = ["vf/parse_code.py / vf/parse_latex.py readers", "the HTML (Sphinx) stage is outside the statement and not run",
               "leaf identity between the page and the imported module is by display name (clashes -> inconclusive)"]
MIN_REACH = {"quick": {"documented_members_expected": 3000, "runs_ok": 4, "pages_checked": 700, "equations_code_checked": 500, "equations_latex_checked": 450,
                       "symbol_blocks_checked": 1500, "attr_targets_checked": 1000, "runs_compared": 3, "battery_compared": 4},
             "thorough": {"partial_generations": 6, "runs_ok": 15, "pages_checked": 700, "equations_code_checked": 500}}
SHARD_TIMEOUT = {"quick": 1500, "thorough": 3300}
NPROC = 6


def plan(tier, seed):
    runs = [{"name": "canonical", "pre": "nothing", "hashseed": "0"},
            {"name": "after-catalogue-import", "pre": "catalogue", "hashseed": "0"},
            {"name": "after-computations", "pre": "computations", "hashseed": "0"},
            {"name": "permuted-walk-other-hashseed", "pre": "nothing", "hashseed": str(1234 + seed), "shuffle_walk": seed + 1},
            {"name": "fresh-battery", "pre": "battery-only", "hashseed": "0"}]
    if tier == "thorough":
        for i in range(5):
            runs.append({"name": f"permuted-{i}", "pre": ["nothing", "computations"][i % 2], "hashseed": str(7 + i + seed), "shuffle_walk": 100 + i + seed})
    if tier == "thorough":
        # partial generations: one top-level package alone (pages generated before other library use, in another order)
        for pkg in ("symplyphysics/definitions", "symplyphysics/conditions", "symplyphysics/laws/dynamics", "symplyphysics/laws/thermodynamics",
                    "symplyphysics/laws/electricity", "symplyphysics/laws/optics"):
            runs.append({"name": "partial:" + pkg.split("symplyphysics/")[-1], "pre": "nothing", "hashseed": "0", "laws_source_dir": pkg})
    specs = [{"_label": r["name"], "kind": "run", "run": r, "seed": seed} for r in runs]
    return specs


def run_driver(run, outdir):
    spec = {"out": outdir, "pre": run.get("pre", "nothing")}
    if run.get("shuffle_walk") is not None:
        spec["shuffle_walk"] = run["shuffle_walk"]
    if run.get("laws_source_dir"):
        spec["laws_source_dir"] = run["laws_source_dir"]
    tmp = tempfile.mkdtemp(prefix="vf_docs_")
    sp, rp = os.path.join(tmp, "spec.json"), os.path.join(tmp, "report.json")
    with open(sp, "w") as f:
        json.dump(spec, f)
    env = harness.worker_env()
    env["PYTHONHASHSEED"] = run.get("hashseed", "0")
    try:
        p = subprocess.run([sys.executable, "-m", "vf.docsdriver", sp, rp], cwd=harness.REPO, env=env, timeout=1200, capture_output=True, text=True, check=False)
        with open(rp) as f:
            rep = json.load(f)
        rep["stderr"] = p.stderr[-500:]
        return rep
    except subprocess.TimeoutExpired:
        return {"ok": False, "error": {"type": "watchdog", "message": "generator exceeded 1200 s"}, "watchdog": True}
    except Exception as e:  # pylint: disable=broad-except
        return {"ok": False, "error": {"type": type(e).__name__, "message": str(e)[:200]}}
    finally:
        shutil.rmtree(tmp, ignore_errors=True)


def fresh_battery():
    code = "import json,sys\nfrom vf import docsdriver\nprint(json.dumps(docsdriver.battery()))\n"
    p = subprocess.run([sys.executable, "-c", code], cwd=harness.REPO, env=harness.worker_env(), timeout=600, capture_output=True, text=True, check=False)
    return json.loads(p.stdout.strip().splitlines()[-1])


# ---------- own walk of the source tree ----------
def has_section_break(doc):
    if doc is None:
        return False
    lines = doc.splitlines()
    for line in lines[1:]:
        if not line:
            continue
        return bool(line) and (all(c == "=" for c in line) or all(c == "-" for c in line)) or _later_break(lines)
    return False


def _later_break(lines):
    for line in lines[1:]:
        if line and (all(c == "=" for c in line) or all(c == "-" for c in line)):
            return True
    return False


def expected_pages(repo):
    """{page stem: ('law'|'package', source path)} from our own walk"""
    pages = {}
    root = os.path.join(repo, "symplyphysics")
    for dirpath, dirnames, filenames in os.walk(root):
        rel = os.path.relpath(dirpath, repo)
        parts = rel.split(os.sep)
        name = parts[-1]
        if name.startswith(".") or name.startswith("_") or (len(parts) == 2 and parts[1] == "core"):
            dirnames[:] = []
            continue
        for fn in filenames:
            if fn.startswith("__") or not fn.endswith(".py"):
                continue
            src = os.path.join(dirpath, fn)
            try:
                with open(src, encoding="utf-8") as f:
                    doc = ast.get_docstring(ast.parse(f.read()))
            except SyntaxError:
                continue
            if doc is not None and _later_break(doc.splitlines()):
                pages[".".join(parts[1:] + [fn[:-3]])] = ("law", src)
        init = os.path.join(dirpath, "__init__.py")
        if os.path.exists(init):
            with open(init, encoding="utf-8") as f:
                doc = ast.get_docstring(ast.parse(f.read()))
            if doc is not None and _later_break(doc.splitlines()):
                pages[".".join(parts[1:])] = ("package", init)
    return pages


MEMBER_RE = re.compile(r"^\.\. py:data:: (\w+)\n", re.M)


def split_members(text):
    out = {}
    ms = list(MEMBER_RE.finditer(text))
    for i, m in enumerate(ms):
        end = ms[i + 1].start() if i + 1 < len(ms) else len(text)
        fm = re.search(r"^\.\. py:function::", text[m.end():end], re.M)
        if fm:
            end = m.end() + fm.start()
        out[m.group(1)] = text[m.end():end]
    return out


def norm_tex(s):
    return re.sub(r"[{}\s]", "", s)


def analyse_pages(outdir, rec, r):
    import sympy
    import symplyphysics  # noqa
    from symplyphysics.core.symbols.symbols import DimensionSymbol
    from symplyphysics.core.dimensions import print_dimension
    from symplyphysics.docs.printer_code import code_str
    from vf.parse_code import parse, ev_ast, ParseError
    from vf.parse_latex import check_balanced
    exp = expected_pages(harness.REPO)
    got = {fn[:-4] for fn in os.listdir(outdir) if fn.endswith(".rst")} - {"index"}
    for stem in sorted(set(exp) - got):
        rec.violation(f"page-missing:{stem}", f"documented {exp[stem][0]} {stem} has no generated page", {"page": stem})
    for stem in sorted(got - set(exp)):
        rec.violation(f"page-unexpected:{stem}", f"page {stem}.rst was generated but the source has no documentation (own walk)", {"page": stem})
    import symplyphysics.symbols as symbols_pkg
    import symplyphysics.quantities as quantities_mod
    # what the generated pages themselves declare (py:currentmodule + py:data / py:function): the targets a cross-reference
    # can resolve to
    declared = set()
    for stem in got:
        with open(os.path.join(outdir, stem + ".rst"), encoding="utf-8") as f:
            ptext = f.read()
        cur = None
        for line in ptext.splitlines():
            mcur = re.match(r"\.\. py:currentmodule:: (\S+)", line)
            if mcur:
                cur = mcur.group(1)
            mdat = re.match(r"\.\. py:(?:data|function):: (\w+)", line)
            if mdat and cur:
                declared.add(cur + "." + mdat.group(1))
    # every page is listed in the table of contents of its parent package page (otherwise it cannot be reached)
    for stem in sorted(got & set(exp)):
        parent = stem.rsplit(".", 1)[0] if "." in stem else None
        if parent and parent in exp and exp[parent][0] == "package" and parent in got:
            with open(os.path.join(outdir, parent + ".rst"), encoding="utf-8") as f:
                ptext = f.read()
            rec.hit("toctree_entries_expected")
            if not re.search(r"^\s+" + re.escape(stem) + r"\s*$", ptext, re.M):
                rec.violation(f"toctree-entry-missing:{parent}", f"{parent}.rst does not list its page {stem} in a table of contents", {"page": parent, "child": stem})
    for stem in sorted(got & set(exp)):
        rec.checkpoint(20)
        kind, src = exp[stem]
        with open(os.path.join(outdir, stem + ".rst"), encoding="utf-8") as f:
            text = f.read()
        rec.hit("pages_checked")
        rec.case(("page", stem))
        case = {"page": stem}
        if ":laws:symbol::" in text or ":laws:latex::" in text or ":laws:sympy-eval::" in text:
            rec.violation(f"placeholder-left:{stem}", f"{stem}.rst still contains a :laws: placeholder", case)
        if ":symbols:`" in text or ":quantity_notation:`" in text:
            rec.violation(f"role-unresolved:{stem}", f"{stem}.rst still contains an unresolved :symbols:/:quantity_notation: role", case)
        for m in re.finditer(r":attr:`~symplyphysics\.(symbols\.(\w+)|quantities)\.(\w+)`", text):
            rec.hit("attr_targets_checked")
            if m.group(2):
                mod = getattr(symbols_pkg, m.group(2), None)
                ok = mod is not None and hasattr(mod, m.group(3))
            else:
                ok = hasattr(quantities_mod, m.group(3))
            if not ok:
                rec.violation(f"attr-target-missing:{m.group(0)}", f"{stem}.rst links to {m.group(0)} which does not exist", case)
            elif m.group(0)[8:-1] not in declared:
                rec.violation(f"attr-target-undocumented:{m.group(0)[8:-1]}", f"{stem}.rst links to {m.group(0)}, but no generated page declares that name (the cross-reference does not resolve)", case)
        if not text.strip() or "=" * 3 not in text and "-" * 3 not in text:
            rec.violation(f"page-without-title:{stem}", f"{stem}.rst has no title", case)
        if kind != "law":
            # a package page lists the documented members of its __init__.py (own reading, as for law modules below)
            try:
                with open(src, encoding="utf-8") as f:
                    ptree = ast.parse(f.read())
                pblocks = split_members(text)
                for i, stmt in enumerate(ptree.body[:-1]):
                    nxt = ptree.body[i + 1]
                    if isinstance(stmt, ast.Assign) and isinstance(nxt, ast.Expr) and isinstance(nxt.value, ast.Constant) and isinstance(nxt.value.value, str):
                        names = [t.id for t in stmt.targets if isinstance(t, ast.Name)]
                        if not names or names[0].startswith("_"):
                            continue
                        rec.hit("package_members_expected")
                        if names[0] not in pblocks:
                            rec.violation(f"member-missing:{stem}.{names[0]}", f"package page {stem}.rst lacks the documented member {names[0]}", dict(case, member=names[0]))
            except SyntaxError:
                pass
            continue
        modname = "symplyphysics." + stem
        try:
            mod = catalogue.import_module(modname)
        except Exception:  # pylint: disable=broad-except
            rec.inconc("module of a page does not import", {"page": stem})
            continue
        with open(src, encoding="utf-8") as f:
            if f"py:currentmodule:: {modname}" not in text:
                rec.violation(f"page-source-mismatch:{stem}", f"{stem}.rst does not declare its own module {modname}", case)
        # own reading of the source: an assignment to a public name directly followed by a string is a documented member
        blocks = split_members(text)
        try:
            with open(src, encoding="utf-8") as f:
                tree = ast.parse(f.read())
            body = tree.body
            for i, stmt in enumerate(body[:-1]):
                nxt = body[i + 1]
                if isinstance(stmt, ast.Assign) and isinstance(nxt, ast.Expr) and isinstance(nxt.value, ast.Constant) and isinstance(nxt.value.value, str):
                    names = [t.id for t in stmt.targets if isinstance(t, ast.Name)]
                    if not names or names[0].startswith("_"):
                        continue
                    rec.hit("documented_members_expected")
                    doc = nxt.value.value
                    if names[0] not in blocks:
                        rec.violation(f"member-missing:{stem}.{names[0]}", f"{stem}.rst lacks the documented member {names[0]}", dict(case, member=names[0]))
                        continue
                    blk = blocks[names[0]]
                    if ":laws:symbol::" in doc and ":code:`" not in blk:
                        rec.violation(f"formula-missing:{stem}.{names[0]}:code", f"{stem}.{names[0]}: the :laws:symbol:: placeholder was not replaced by a code rendering", dict(case, member=names[0]))
                    if ":laws:latex::" in doc and ".. math::" not in blk:
                        rec.violation(f"formula-missing:{stem}.{names[0]}:latex", f"{stem}.{names[0]}: the :laws:latex:: placeholder was not replaced by a LaTeX rendering", dict(case, member=names[0]))
            # ... and a public function with a docstring is a documented function
            for stmt in body:
                if isinstance(stmt, ast.FunctionDef) and not stmt.name.startswith("_") and ast.get_docstring(stmt) is not None:
                    rec.hit("documented_functions_expected")
                    if f".. py:function:: {stmt.name}(" not in text:
                        rec.violation(f"function-missing:{stem}.{stmt.name}", f"{stem}.rst lacks the documented function {stmt.name}", dict(case, function=stmt.name))
            # the description of the page is the module docstring after its title: every non-empty line of it, in order,
            # and the title is not repeated below itself
            doc_lines = (ast.get_docstring(tree) or "").splitlines()
            brk = next((i_ for i_, l_ in enumerate(doc_lines) if l_ and set(l_) <= {"="} or l_ and set(l_) <= {"-"}), None)
            if brk is not None and brk >= 1:
                title = doc_lines[brk - 1].strip()
                head = text.split(".. py:currentmodule::")[0]
                rec.hit("descriptions_checked")
                pl = text.splitlines()
                if len(pl) < 3 or pl[0].strip() != title or not pl[1] or set(pl[1]) - {"=", "-"} or len(pl[1]) < len(title) or pl[2].strip():
                    rec.violation(f"page-heading-malformed:{stem}", f"{stem}.rst does not start with its title, one underline and a blank line: {pl[:3]!r}", case)
                if head.count("\n" + doc_lines[brk] + "\n") + head.startswith(doc_lines[brk]) > 1 or head.splitlines().count(title) != 1:
                    rec.violation(f"description-unfaithful:{stem}:title-repeated", f"{stem}.rst repeats its title / section break inside the description", case)
                pos = 0
                for l_ in [x.strip() for x in doc_lines[brk + 1:] if x.strip() and not re.search(r":\w+:`", x)]:   # (lines with roles are rewritten)
                    j_ = head.find(l_, pos)
                    if j_ < 0:
                        rec.violation(f"description-unfaithful:{stem}:line-missing", f"{stem}.rst lacks the description line {l_[:80]!r} of the module docstring (or has it out of order)", case)
                        break
                    pos = j_ + len(l_)
        except SyntaxError:
            pass
        for name, block in blocks.items():
            if not hasattr(mod, name):
                rec.violation(f"member-unknown:{stem}.{name}", f"{stem}.rst documents {name} which the module does not define", case)
                continue
            value = getattr(mod, name)
            mcase = {"page": stem, "member": name}
            rec.case(("member", stem, name))
            # symbol table
            sm = re.search(r"^Symbol:\n    :code:`(.*)`\n\nLatex:\n    :math:`(.*)`\n\nDimension:\n    :code:`(.*)`", block, re.M)
            if sm and isinstance(value, DimensionSymbol):
                rec.hit("symbol_blocks_checked")
                want_code = value.display_name
                want_dim = print_dimension(value.dimension)
                if re.search(r"\b(SYM|FUN|QTY|VEC|SYS)\d+\b", sm.group(1) + " " + sm.group(2)):
                    rec.violation(f"symbol-internal-name:{stem}.{name}", f"{stem}.{name} is listed under a generated internal name: code {sm.group(1)!r}, LaTeX {sm.group(2)!r}", mcase)
                try:
                    want_code = code_str(value)   # (an indexed symbol is listed with its index, a function with its arguments)
                except Exception:  # pylint: disable=broad-except
                    pass
                if sm.group(1) != want_code:
                    rec.violation(f"symbol-code-name:{stem}.{name}", f"{stem}.{name} listed with code name {sm.group(1)!r}, the module's attribute has {want_code!r}", mcase)
                if norm_tex(sm.group(2)) != norm_tex(value.display_latex) and norm_tex(value.display_latex) not in norm_tex(sm.group(2)):
                    rec.violation(f"symbol-latex-name:{stem}.{name}", f"{stem}.{name} listed with LaTeX name {sm.group(2)!r}, the module's attribute has {value.display_latex!r}", mcase)
                if sm.group(3) != want_dim:
                    rec.violation(f"symbol-dimension:{stem}.{name}", f"{stem}.{name} listed with dimension {sm.group(3)!r}, the module's attribute has {want_dim!r}", mcase)
            # formula renderings of equations / expressions
            if isinstance(value, (sympy.Expr, sympy.core.relational.Relational)) and not isinstance(value, DimensionSymbol):
                cm = re.search(r"^    :code:`(.*)`\s*$", block, re.M)
                lm = re.search(r"Latex:\n        \.\. math::\n((?:            .*\n?)+)", block)
                sides = [value.lhs, value.rhs] if isinstance(value, sympy.Equality) else [value]
                try:
                    env, clash = printsem.atoms_env(value, r)
                except Exception:  # pylint: disable=broad-except
                    env, clash = None, True
                if cm:
                    if clash or env is None:
                        rec.inconc("page equation: two leaves share a display name", mcase)
                    else:
                        try:
                            tree = parse(cm.group(1), list(env))
                            parts = [tree[1], tree[2]] if tree[0] == "eq" else [tree]
                            if len(parts) != len(sides):
                                rec.violation(f"page-code-shape:{stem}.{name}", f"{stem}.{name}: page shows {cm.group(1)!r} for {value}", mcase)
                            else:
                                vals_o = [printsem.ev_sym(sd, env) for sd in sides]
                                vals_p = [ev_ast(pt, env) for pt in parts]
                                rec.hit("equations_code_checked")
                                ok = all(printsem.fin(a) and printsem.fin(b) and abs(a - b) <= 1e-9 * max(1, abs(a), abs(b)) for a, b in zip(vals_o, vals_p))
                                if not ok and len(sides) == 2:
                                    d_o, d_p = vals_o[0] - vals_o[1], vals_p[0] - vals_p[1]
                                    ok = abs(d_o - d_p) <= 1e-9 * max(1, abs(d_o)) or abs(d_o + d_p) <= 1e-9 * max(1, abs(d_o))
                                if not ok and all(printsem.fin(a) and printsem.fin(b) for a, b in zip(vals_o, vals_p)):
                                    rec.violation(f"page-code-value:{stem}.{name}", f"{stem}.{name}: page shows {cm.group(1)!r} whose value differs from the module's own {value}", mcase)
                        except (ParseError, printsem.Unsupported) as e:
                            rec.inconc("page equation not readable: " + str(e).split(":")[0][:40])
                        except Exception as e:  # pylint: disable=broad-except
                            rec.inconc("page equation comparison crashed: " + type(e).__name__)
                if lm:
                    tex = " ".join(ln.strip() for ln in lm.group(1).splitlines())
                    rec.hit("equations_latex_checked")
                    bal = check_balanced(tex)
                    if bal:
                        rec.violation(f"page-latex-unbalanced:{stem}.{name}", f"{stem}.{name}: LaTeX block unbalanced ({bal}): {tex[:150]}", mcase)
                if (cm is None) != (lm is None) and name in ("law", "definition", "condition"):
                    rec.note(f"{stem}.{name}: only one of code/LaTeX rendering present")
    return len(got & set(exp))


def code_value(line, r_seed):
    """value of a rendered code line with every identifier mapped to a fixed pseudo-random number"""
    import hashlib
    import mpmath
    from vf.parse_code import parse, ev_ast, IDENT
    m = re.search(r":code:`(.*)`", line)
    if not m:
        return None
    text = m.group(1)
    names = set(IDENT.findall(text))
    env = {}
    for n in names:
        hd = hashlib.sha1(f"{n}#{r_seed}".encode()).digest()
        env[n] = mpmath.mpf(300 + int.from_bytes(hd[:2], "big") % 1700) / 1000
    tree = parse(text, [])
    parts = [tree[1], tree[2]] if tree[0] == "eq" else [tree]
    return [ev_ast(p, env) for p in parts]


def compare_with_canonical(run, outdir, rec, r):
    """generate the canonical pages next to this run and classify every difference"""
    canon_dir = tempfile.mkdtemp(prefix="vf_docs_canon_")
    try:
        rep = run_driver({"name": "canonical-twin", "pre": "nothing", "hashseed": "0"}, canon_dir)
        if not rep.get("ok"):
            rec.inconc("canonical twin run failed", {"run": run["name"]})
            return
        rec.hit("runs_compared")
        a = {fn for fn in os.listdir(canon_dir)}
        b = {fn for fn in os.listdir(outdir)}
        if a != b:
            rec.violation("nondeterministic:page-set", f"run {run['name']} produced a different page set: +{sorted(b - a)[:3]} -{sorted(a - b)[:3]}", {"run": run})
        same_history = run.get("pre", "nothing") == "nothing"
        for fn in sorted(a & b):
            with open(os.path.join(canon_dir, fn), encoding="utf-8") as f:
                ta = f.read()
            with open(os.path.join(outdir, fn), encoding="utf-8") as f:
                tb = f.read()
            if ta == tb:
                continue
            rec.hit("pages_differing")
            la, lb = ta.splitlines(), tb.splitlines()
            kind = "content"
            if len(la) == len(lb):
                diffs = [(x, y) for x, y in zip(la, lb) if x != y]
                code_pairs = [(x, y) for x, y in diffs if ":code:`" in x and ":code:`" in y]
                try:
                    equal = bool(code_pairs) and all(
                        all(abs(u - v) <= 1e-12 * max(1, abs(u)) for u, v in zip(code_value(x, k), code_value(y, k)))
                        for x, y in code_pairs for k in (1, 2))
                except Exception:  # pylint: disable=broad-except
                    equal = False
                if equal and len(diffs) <= 2 * len(code_pairs) + 2:
                    kind = "reordered-value-equal"
            page = fn[:-4]
            if same_history:
                rec.violation(f"nondeterministic:same-history:{kind}:{page}", f"run {run['name']} (same pre-history, other hash seed / directory order) renders {page} differently ({kind})", {"run": run, "page": page})
            elif kind == "reordered-value-equal":
                rec.violation("nondeterministic:history:reordered-value-equal", f"run {run['name']}: page {page} shows the same formula with factors in another order than in the canonical run", {"run": run, "page": page})
            else:
                rec.violation(f"nondeterministic:history:content:{page}", f"run {run['name']}: page {page} differs from the canonical run", {"run": run, "page": page})
    finally:
        shutil.rmtree(canon_dir, ignore_errors=True)


def work(spec, rec):
    run = spec["run"]
    r = harness.rng_for("C19", spec["seed"], run["name"])
    if run["pre"] == "battery-only":
        rec.extra["fresh_battery"] = fresh_battery()
        rec.case(("fresh-battery",))
        return
    outdir = tempfile.mkdtemp(prefix="vf_docs_out_")
    try:
        rep = run_driver(run, outdir)
        rec.case(("run", run["name"]), nontrivial=run["name"] != "canonical")
        if rep.get("watchdog"):
            rec.inconc("watchdog: generator run exceeded the wall-clock limit", {"run": run["name"]})
            return
        if not rep.get("ok"):
            err = rep.get("error") or {}
            rec.violation(f"generator-raises:{err.get('type')}", f"documentation generation failed in run {run['name']}: {err.get('type')}: {err.get('message')} {err.get('cause') or ''}",
                          {"run": run, "traceback": err.get("traceback", "")[-600:]})
            return
        rec.hit("runs_ok")
        for bad in rep.get("flag_bad", [])[:5]:
            rec.violation("evaluation-flag-off:" + bad["where"].split(" ")[0], f"run {run['name']}: {bad}", {"run": run, "event": bad})
        if not rep.get("flag_after"):
            rec.violation("evaluation-flag-off:at-exit", f"run {run['name']}: global evaluation is off after generation", {"run": run})
        c = rep.get("counts", {})
        if c.get("disable") != c.get("reset"):
            rec.violation("evaluation-flag-unbalanced", f"run {run['name']}: {c.get('disable')} disable vs {c.get('reset')} reset calls", {"run": run})
        rec.extra["runs"] = {run["name"]: {"files": rep["files"], "battery": rep["battery"], "counts": c}}
        if run["name"] != "canonical" and not run.get("laws_source_dir"):
            compare_with_canonical(run, outdir, rec, r)
        if run.get("laws_source_dir"):
            rec.hit("partial_generations")
        if run["name"] == "canonical":
            n = analyse_pages(outdir, rec, r)
            rec.sample({"run": run["name"], "pages": n, "flag_trace_counts": c})
    finally:
        shutil.rmtree(outdir, ignore_errors=True)


def finalize(merged, tier, seed, results):
    runs = merged["extra"].pop("runs", {})
    fresh = merged["extra"].pop("fresh_battery", None)
    canon = runs.get("canonical")
    viol = []
    if canon is None:
        merged["inconclusive"]["canonical run produced no result"] = 1
    for name, rr in runs.items():
        if fresh is not None:
            merged["reach"]["battery_compared"] = merged["reach"].get("battery_compared", 0) + 1
            d = {k: (fresh.get(k), rr["battery"].get(k)) for k in fresh if fresh.get(k) != rr["battery"].get(k)}
            if d:
                viol.append({"key": "later-computations-changed", "what": f"after generation (run {name}) computations differ from a fresh process: {d}", "case": {"run": name, "diff": {k: list(v) for k, v in d.items()}}})
    if fresh is None:
        merged["inconclusive"]["fresh battery missing"] = 1
    merged["violations"].extend(viol)
    merged["nviol"] += len(viol)
    merged["evaluations"] += len(runs)
    return {"runs": sorted(runs), "pages_per_run": {k: len(v["files"]) for k, v in runs.items()}}


def replay(case, rec):
    rec.note("rerun the tier; case: " + str(case)[:300])
