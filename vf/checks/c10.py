"""C10 - Cartesian vector arithmetic obeys vector-space, dot and cross product laws.
Workload: the real arithmetic functions on vectors with generic symbolic components (every operand-length combination
0..3) and on random numeric vectors.  Monitor: components / scalars / errors returned.  Oracle: the polynomial identities
of the statement, decided by expand()==0 AND by random rational evaluation."""
from __future__ import annotations

import itertools
from fractions import Fraction as Fr

from vf import harness

RULE = ("every identity of the statement x every combination of operand lengths 0..3 (x0..3 for three-operand identities) "
        "with generic symbolic components (one execution covers all component values; checked by expand()==0 and by 3 random "
        "rational evaluations), plus numeric draws (ints, rationals, floats, zeros, repeated components) per combination, plus "
        "refusal cases (different CoordinateSystem objects, non-Cartesian operands, >3 components). non-trivial = at least "
        "one operand has a component; distinct = (identity, lengths, draw).")
RULE = RULE + ' Also: refusal for systems of another kind declared over the same inner SymPy system.'
ASSUMPTIONS = ["SymPy expand/Rational arithmetic", "missing components count as zero (statement)"]
MIN_REACH = {"quick": {"identity_checked": 3000, "length_combos_2": 16, "length_combos_3": 64, "refusal_checked": 5000, "scaling_checked": 800},
             "thorough": {"identity_checked": 30000, "length_combos_2": 16, "length_combos_3": 64, "refusal_checked": 5000}}
DRAWS = {"quick": 12, "thorough": 160}
SHARD_TIMEOUT = {"quick": 600, "thorough": 3000}


def plan(tier, seed):
    return _plan_core(tier, seed) + [{"_label": "suite", "kind": "suite", "tier": tier, "_timeout": 2400}]


def _plan_core(tier, seed):
    combos3 = list(itertools.product(range(4), repeat=3))
    shards = []
    k = 16
    for i in range(k):
        shards.append({"_label": f"combos{i}", "combos": combos3[i::k], "seed": seed, "draws": DRAWS[tier], "refusals": i == 0})
    return shards


def pad(comps, n=3):
    import sympy
    return list(comps) + [sympy.S.Zero] * (n - len(comps))


class Ctx:
    def __init__(self, rec, r):
        import sympy
        self.rec, self.r, self.sp = rec, r, sympy
        self.points = None

    def zero(self, expr, syms):
        """expr == 0 for all values: expand + random rational evaluation"""
        sp = self.sp
        e = sp.expand(expr)
        if e == 0:
            sym_zero = True
        else:
            e2 = sp.simplify(e)
            sym_zero = e2 == 0
        num_zero = True
        for _ in range(3):
            sub = {s: sp.Rational(self.r.randint(-40, 40) or 3, self.r.randint(1, 9)) for s in syms}
            v = sp.sympify(expr).xreplace(sub)
            try:
                v = sp.nsimplify(v) if v.is_number and v.is_Rational is False and not v.has(sp.Float) else v
                ok = (sp.simplify(v) == 0) if not v.is_Rational else v == 0
                if not ok and v.is_number:
                    ok = abs(complex(sp.N(v, 30))) < 1e-20
            except Exception:  # pylint: disable=broad-except
                ok = None
            if ok is False:
                num_zero = False
                break
        return sym_zero, num_zero


def check_identities(la, lb, lc, ctx: Ctx, numeric_draw=None):
    import sympy
    from symplyphysics import Vector, add_cartesian_vectors as add, subtract_cartesian_vectors as sub, scale_vector as scale, \
        dot_vectors as dot, cross_cartesian_vectors as cross, vector_magnitude as mag, vector_unit as unit
    from symplyphysics.core.vectors.arithmetics import project_vector as proj, reject_cartesian_vector as rej
    rec, r = ctx.rec, ctx.r
    if numeric_draw is None or numeric_draw == "generic":
        # "symbolic": real symbols; "symbolic-generic": no assumptions at all (the identities are polynomial, they hold over C)
        kw = {"real": True} if numeric_draw is None else {}
        A = sympy.symbols(f"a0:{la}", **kw)
        B = sympy.symbols(f"b0:{lb}", **kw)
        C = sympy.symbols(f"c0:{lc}", **kw)
        k, m = sympy.symbols("k m", **kw)
        syms = list(A) + list(B) + list(C) + [k, m]
        mode = "symbolic" if numeric_draw is None else "symbolic-generic"
    else:
        def num():
            t = r.random()
            if t < 0.2:
                return sympy.Integer(0)
            if t < 0.5:
                return sympy.Integer(r.randint(-9, 9))
            if t < 0.75:
                return sympy.Rational(r.randint(-50, 50), r.randint(1, 12))
            if t < 0.85:
                return sympy.Integer(r.randint(-5, 5)) + sympy.I * r.randint(-4, 4)
            return sympy.Float(round(r.uniform(-5, 5), 3))
        A = [num() for _ in range(la)]
        B = [num() for _ in range(lb)]
        C = [num() for _ in range(lc)]
        if la and lb and r.random() < 0.2:
            B = list(A[:lb]) + B[len(A[:lb]):]  # repeated components / parallel vectors
        k, m = num() or sympy.Integer(2), num()
        syms = []
        mode = "numeric"
    a, b, c = Vector(list(A)), Vector(list(B)), Vector(list(C))
    case = {"lengths": [la, lb, lc], "mode": mode, "a": [str(x) for x in A], "b": [str(x) for x in B], "c": [str(x) for x in C], "k": str(k), "m": str(m)}

    def vec_eq(name, got, want):
        g, w = pad(got.components), pad(want)
        if len(got.components) > 3:
            rec.violation(f"{name}:too-many-components", f"{name} returned {len(got.components)} components for lengths {la},{lb},{lc}", case)
            return
        for i in range(3):
            scalar_eq(f"{name}[{i}]", g[i], w[i])

    def scalar_eq(name, got, want):
        rec.hit("identity_checked")
        ident = name.split("[")[0]
        diff = sympy.sympify(got) - sympy.sympify(want)
        if mode.startswith("symbolic"):
            sym_zero, num_zero = ctx.zero(diff, syms)
            ok = sym_zero and num_zero
            if sym_zero != num_zero:
                rec.note(f"expand/simplify and random evaluation disagree on {name} {la},{lb},{lc}: sym={sym_zero} num={num_zero}")
                ok = num_zero
        else:
            if diff.has(sympy.Float):
                try:
                    ok = abs(complex(sympy.N(diff, 30))) <= 1e-9 * max(1.0, abs(complex(sympy.N(want, 30))))
                except Exception:  # pylint: disable=broad-except
                    ok = None
            else:
                ok = sympy.simplify(diff) == 0
        if ok is False:
            rec.violation(f"{ident}:lengths", f"{name} fails for operand lengths ({la},{lb},{lc}) [{mode}]: got {str(got)[:120]}, expected {str(want)[:120]}", dict(case, identity=name))

    pa, pb, pc = pad(A), pad(B), pad(C)
    dotp = lambda x, y: sum(x[i] * y[i] for i in range(3))
    crossp = lambda x, y: [x[1] * y[2] - x[2] * y[1], x[2] * y[0] - x[0] * y[2], x[0] * y[1] - x[1] * y[0]]
    # --- vector space ---
    vec_eq("add(a,b)", add(a, b), [pa[i] + pb[i] for i in range(3)])
    vec_eq("add-commutes", add(a, b), pad(add(b, a).components))
    vec_eq("add-associative", add(add(a, b), c), pad(add(a, add(b, c)).components))
    vec_eq("add(a,b,c)", add(a, b, c), [pa[i] + pb[i] + pc[i] for i in range(3)])
    vec_eq("subtract-inverse", sub(add(a, b), b), pa)
    vec_eq("subtract(a,b)", sub(a, b), [pa[i] - pb[i] for i in range(3)])
    vec_eq("subtract(a,b,c)", sub(a, b, c), [pa[i] - pb[i] - pc[i] for i in range(3)])
    vec_eq("subtract(a,a)", sub(a, a), [0, 0, 0])
    vec_eq("scale-distributes-vectors", scale(k, add(a, b)), pad(add(scale(k, a), scale(k, b)).components))
    vec_eq("scale-distributes-scalars", scale(k + m, a), pad(add(scale(k, a), scale(m, a)).components))
    vec_eq("scale(k,a)", scale(k, a), [k * x for x in pa])
    # --- dot ---
    scalar_eq("dot(a,b)", dot(a, b), dotp(pa, pb))
    scalar_eq("dot-symmetric", dot(a, b), dot(b, a))
    scalar_eq("dot-additive", dot(add(a, b), c), dot(a, c) + dot(b, c))
    scalar_eq("dot-homogeneous", dot(scale(k, a), b), k * dot(a, b))
    scalar_eq("magnitude-squared", mag(a) ** 2, dot(a, a))
    # --- cross ---
    cab = cross(a, b)
    vec_eq("cross(a,b)", cab, crossp(pa, pb))
    vec_eq("cross-antisymmetric", cab, [-x for x in pad(cross(b, a).components)])
    vec_eq("cross-additive", cross(add(a, b), c), pad(add(cross(a, c), cross(b, c)).components))
    vec_eq("cross-homogeneous", cross(scale(k, a), b), pad(scale(k, cab).components))
    scalar_eq("cross-orthogonal-left", dot(cab, a), 0)
    scalar_eq("cross-orthogonal-right", dot(cab, b), 0)
    scalar_eq("lagrange", dot(cab, cab), dot(a, a) * dot(b, b) - dot(a, b) ** 2)
    # --- projection / rejection / unit (need a non-zero target) ---
    if lb > 0 and (mode.startswith("symbolic") or (any(x != 0 for x in B) and sympy.simplify(dotp(pb, pb)) != 0)):
        p, q = proj(a, b), rej(a, b)
        vec_eq("projection+rejection", add(p, q), pa)
        scalar_eq("rejection-orthogonal", sympy.simplify(dot(q, b)), 0)
        if mode == "numeric":
            scalar_eq("unit-magnitude", sympy.simplify(mag(unit(b))), 1)
        else:
            scalar_eq("unit-magnitude", sympy.simplify(mag(unit(b)) ** 2), 1)
    rec.case((la, lb, lc, mode, case["a"], case["b"], case["c"]), nontrivial=(la + lb + lc) > 0)
    if len(rec.samples) < 3 and mode == "numeric":
        rec.sample(case)


def scaling_case(la, lb, ctx):
    """float vectors scaled by an exact power of two (2^-40 .. 2^30): the products are homogeneous, so every result on the
    scaled operands is the scaled result on the original ones - to rounding, relative to its own size (small components
    are numbers like any others)"""
    import sympy
    from symplyphysics import Vector, dot_vectors as dot, cross_cartesian_vectors as cross, vector_magnitude as mag, vector_unit as unit
    from symplyphysics.core.vectors.arithmetics import project_vector as proj, reject_cartesian_vector as rej
    rec, r = ctx.rec, ctx.r
    if la == 0 or lb == 0:
        return
    fl_ = lambda: sympy.Float(round(r.uniform(0.5, 5) * r.choice([1, -1]), 3))
    A, B = [fl_() for _ in range(la)], [fl_() for _ in range(lb)]
    e_ = r.choice([-40, -30, -27, 30])
    s_ = sympy.Float(2) ** e_
    a, b = Vector(A), Vector(B)
    sa, sb = Vector([s_ * x for x in A]), Vector([s_ * x for x in B])
    case = {"lengths": [la, lb], "a": [str(x) for x in A], "b": [str(x) for x in B], "scale": f"2**{e_}"}
    rec.case(("scaling", str(case)))

    def rel_eq(name, got, want):
        rec.hit("scaling_checked")
        try:
            g_, w_ = complex(sympy.N(got, 30)), complex(sympy.N(want, 30))
        except Exception:  # pylint: disable=broad-except
            rec.violation(f"scaling:{name}:not-a-number", f"{name} of operands scaled by {case['scale']} is {str(got)[:80]}", case)
            return
        if abs(g_ - w_) > 1e-9 * abs(w_) and not (w_ == 0 and g_ == 0):
            rec.violation(f"scaling:{name}", f"{name} of operands scaled by {case['scale']}: got {g_}, expected the scaled result {w_}", case)

    rel_eq("dot", dot(sa, sb), s_ ** 2 * dot(a, b))
    rel_eq("magnitude", mag(sa), s_ * mag(a))
    rel_eq("magnitude-squared", mag(sa) ** 2, dot(sa, sa))
    for i, (x, y) in enumerate(zip(pad(cross(sa, sb).components), pad(cross(a, b).components))):
        rel_eq(f"cross[{i}]", x, s_ ** 2 * y)
    for i, (x, y) in enumerate(zip(pad(unit(sb).components), pad(unit(b).components))):
        rel_eq(f"unit[{i}]", x, y)
    for i, (x, y) in enumerate(zip(pad(proj(sa, sb).components), pad(proj(a, b).components))):
        rel_eq(f"projection[{i}]", x, s_ * y)
    for i, (x, y) in enumerate(zip(pad(rej(sa, sb).components), pad(rej(a, b).components))):
        rel_eq(f"rejection[{i}]", x, s_ * y)


def check_refusals(rec):
    import sympy
    from symplyphysics import Vector, CoordinateSystem, add_cartesian_vectors as add, subtract_cartesian_vectors as sub, \
        dot_vectors as dot, cross_cartesian_vectors as cross
    from symplyphysics.core.vectors.arithmetics import project_vector as proj, reject_cartesian_vector as rej, equal_vectors, \
        diff_cartesian_vector, integrate_cartesian_vector
    S = CoordinateSystem.System
    x = sympy.Symbol("x")
    systems = {"cartA": CoordinateSystem(S.CARTESIAN), "cartB": CoordinateSystem(S.CARTESIAN), "cyl": CoordinateSystem(S.CYLINDRICAL),
               "cylB": CoordinateSystem(S.CYLINDRICAL), "sph": CoordinateSystem(S.SPHERICAL), "sphB": CoordinateSystem(S.SPHERICAL)}
    # systems of another kind declared over the *same* inner SymPy system as cartA (what a hand-made conversion produces):
    # still different coordinate systems
    systems["cylOverA"] = CoordinateSystem(S.CYLINDRICAL, systems["cartA"].coord_system)
    systems["sphOverA"] = CoordinateSystem(S.SPHERICAL, systems["cartA"].coord_system)
    binary = {"add": add, "subtract": sub, "dot": dot, "cross": cross, "project": proj, "reject": rej, "equal": equal_vectors}

    def must_refuse(name, fn, case):
        rec.hit("refusal_checked")
        rec.case(("refusal", name, str(case)))
        try:
            res = fn()
        except (TypeError, ValueError):
            return
        except Exception as e:  # pylint: disable=broad-except
            rec.note(f"{name}: refused by {type(e).__name__}")
            return
        rec.violation(f"not-refused:{name}", f"{name} returned {getattr(res, 'components', res)} instead of refusing: {case}", case)

    for (n1, s1), (n2, s2) in itertools.permutations(systems.items(), 2):
        for la, lb in itertools.product(range(4), repeat=2):
            va = Vector([1, 2, 3][:la], s1)
            vb = Vector([4, 5, 6][:lb], s2)
            for fname, f in binary.items():
                must_refuse(f"{fname}:different-systems", lambda f=f: f(va, vb), {"systems": [n1, n2], "lengths": [la, lb], "function": fname})
    for n, s in systems.items():
        if n.startswith("cart"):
            continue
        for la, lb in itertools.product(range(4), repeat=2):
            va, vb = Vector([1, 2, 3][:la], s), Vector([4, 5, 6][:lb], s)
            for fname in ("add", "subtract", "cross", "reject"):
                must_refuse(f"{fname}:non-cartesian", lambda f=binary[fname]: f(va, vb), {"system": n, "lengths": [la, lb], "function": fname})
            must_refuse("diff:non-cartesian", lambda: diff_cartesian_vector(Vector([x, x**2, 1][:la], s), x), {"system": n, "length": la})
            must_refuse("integrate:non-cartesian", lambda: integrate_cartesian_vector(Vector([x, x**2, 1][:la], s), x), {"system": n, "length": la})
    cs = systems["cartA"]
    for la, lb in ((4, 3), (3, 4), (4, 4), (5, 0), (0, 4)):
        must_refuse("cross:more-than-3-components", lambda: cross(Vector(list(range(1, la + 1)), cs), Vector(list(range(1, lb + 1)), cs)), {"lengths": [la, lb]})


def work(spec, rec):
    if spec.get("kind") == "suite":
        harness.run_suite("C10", harness.SUITE_QUICK if spec["tier"] == "quick" else harness.SUITE_FULL, rec)
        rec.case(("suite", spec["tier"]))
        return
    r = harness.rng_for("C10", spec["seed"], spec["_label"])
    ctx = Ctx(rec, r)
    for (la, lb, lc) in spec["combos"]:
        rec.checkpoint()
        try:
            with harness.Watchdog(240):
                check_identities(la, lb, lc, ctx)
                check_identities(la, lb, lc, ctx, numeric_draw="generic")
            rec.hit("length_combos_3")
            if lc == 0:
                rec.hit("length_combos_2")
        except TimeoutError:
            rec.inconc("watchdog in symbolic identities", {"lengths": [la, lb, lc]})
        for d in range(spec["draws"]):
            try:
                with harness.Watchdog(60):
                    check_identities(la, lb, lc, ctx, numeric_draw=d)
            except TimeoutError:
                rec.inconc("watchdog in numeric identities")
            except ZeroDivisionError:
                rec.add("numeric_draw_division_by_zero")
        for _ in range(3):
            try:
                with harness.Watchdog(60):
                    scaling_case(la, lb, ctx)
            except TimeoutError:
                rec.inconc("watchdog in scaling case")
    if spec.get("refusals"):
        check_refusals(rec)


def replay(case, rec):
    r = harness.rng_for("C10", "replay")
    ctx = Ctx(rec, r)
    if "lengths" in case and len(case["lengths"]) == 3:
        check_identities(*case["lengths"], ctx)
        for d in range(40):
            check_identities(*case["lengths"], ctx, numeric_draw=d)
    else:
        check_refusals(rec)
