"""C15 - experimental coordinate conversions are consistent and geometry-preserving.
Workload: the real express_base_scalars / express_base_vectors / convert_point / convert_vector and Lame coefficients at
random points of each system's domain, all 6 ordered pairs and all triples of systems.
Oracle: own geometry (ISO convention of this package: cylindrical (rho, phi, z); spherical (r, theta=polar, phi=azimuth))."""
from __future__ import annotations

import itertools
import math

from vf import harness

RULE = ("random points of each domain (rho>0.2, polar angle in (0.15, pi-0.15), azimuth in (-pi, pi)) incl. all octants; per "
        "point: (1) scalars A(B) evaluated at B's coordinates == A's coordinates for the 6 ordered pairs and A->B->A substituted "
        "== identity; (2) direct A->C == A->B->C for the 6 triples; (3) base-vector tables evaluated with the own basis give a "
        "matrix M with M^T M = I, det = +1, equal to the own rotation, and M(B->A) = M(A->B)^T; (4) convert_point preserves the "
        "Cartesian position; (5) convert_vector preserves Cartesian components; (6) Lame coefficients == |d r / d q_i| from the "
        "library's own Cartesian map and from finite differences of the own map; wrong arity / unsupported systems refused. "
        "non-trivial = point off the coordinate planes; distinct = (point, pair).")
RULE = RULE + " Also: points with symbolic coordinates (fresh symbols, the system's own base scalars permuted, expressions of them); bracketed vectors; conversions chained A->B->A and A->B->C on the result as returned."
ASSUMPTIONS = ["own geometric model in this file (written from the ISO definitions)"]
N = {"quick": 208, "thorough": 4800}
MIN_REACH = {"quick": {"symbolic_point": 1000, "vector_bracketed": 1000, "vector_chain": 2000, "scalars": 1000, "roundtrip": 1000, "via_third": 1000, "base_vectors": 1000, "inverse_transpose": 500,
                       "point": 1000, "vector": 1000, "lame": 400, "refusal": 5, "negative_y": 40},
             "thorough": {"scalars": 20000, "base_vectors": 20000, "vector": 20000}}
SHARD_TIMEOUT = {"quick": 600, "thorough": 3000}


def plan(tier, seed):
    n = N[tier]
    return [{"_label": f"shard{i}", "seed": seed, "shard": i, "points": n // 16} for i in range(16)]


def to_cart(name, q):
    if name == "cart":
        return tuple(q)
    if name == "cyl":
        rho, p, z = q
        return (rho * math.cos(p), rho * math.sin(p), z)
    r, t, p = q
    return (r * math.sin(t) * math.cos(p), r * math.sin(t) * math.sin(p), r * math.cos(t))


def from_cart(name, c):
    x, y, z = c
    if name == "cart":
        return (x, y, z)
    if name == "cyl":
        return (math.hypot(x, y), math.atan2(y, x), z)
    r = math.sqrt(x * x + y * y + z * z)
    return (r, math.acos(z / r), math.atan2(y, x))


def basis(name, q):
    """rows: base vectors as Cartesian components at point q"""
    if name == "cart":
        return [(1.0, 0.0, 0.0), (0.0, 1.0, 0.0), (0.0, 0.0, 1.0)]
    if name == "cyl":
        _, p, _ = q
        return [(math.cos(p), math.sin(p), 0.0), (-math.sin(p), math.cos(p), 0.0), (0.0, 0.0, 1.0)]
    _, t, p = q
    return [(math.sin(t) * math.cos(p), math.sin(t) * math.sin(p), math.cos(t)),
            (math.cos(t) * math.cos(p), math.cos(t) * math.sin(p), -math.sin(t)),
            (-math.sin(p), math.cos(p), 0.0)]


def close(a, b, tol=1e-9):
    return abs(a - b) <= tol * max(1.0, abs(a), abs(b))


def same_coords(name, got, want, tol=1e-9):
    def ang(a, b):
        d = (a - b) % (2 * math.pi)
        return min(d, 2 * math.pi - d) <= tol
    if name == "cart":
        return all(close(g, w, tol) for g, w in zip(got, want))
    if name == "cyl":
        return close(got[0], want[0], tol) and ang(got[1], want[1]) and close(got[2], want[2], tol)
    return close(got[0], want[0], tol) and ang(got[1], want[1]) and ang(got[2], want[2])


def fl(x):
    import sympy
    return float(sympy.N(x, 30))


def det3(m):
    return (m[0][0] * (m[1][1] * m[2][2] - m[1][2] * m[2][1]) - m[0][1] * (m[1][0] * m[2][2] - m[1][2] * m[2][0])
            + m[0][2] * (m[1][0] * m[2][1] - m[1][1] * m[2][0]))


def matrix_of(mapping, old_vectors, new_vectors, subs):
    """M[i][j] = coefficient of new base vector j in the expression of old base vector i"""
    import sympy
    M = []
    for e in old_vectors:
        expr = sympy.expand(sympy.sympify(mapping[e]).subs(subs))
        row = []
        rest = expr
        for nb in new_vectors:
            c = expr.coeff(nb) if expr.has(nb) else sympy.S.Zero
            row.append(fl(c))
            rest = rest - c * nb
        if sympy.simplify(rest) != 0:
            raise ValueError(f"residual {rest} not along the new base vectors")
        M.append(row)
    return M


def work(spec, rec):
    import sympy
    from symplyphysics.core.experimental.coordinate_systems import (CartesianCoordinateSystem, CylindricalCoordinateSystem,
                                                                    SphericalCoordinateSystem, express_base_scalars, express_base_vectors,
                                                                    convert_point, convert_vector)
    from symplyphysics.core.experimental.points import AppliedPoint
    r = harness.rng_for("C15", spec["seed"], spec["shard"])
    S = {"cart": CartesianCoordinateSystem(), "cyl": CylindricalCoordinateSystem(), "sph": SphericalCoordinateSystem()}
    pairs = list(itertools.permutations(S, 2))
    for it in range(spec["points"]):
        rec.checkpoint()
        # random physical point away from the singular sets, all octants
        while True:
            c = (r.uniform(-2.5, 2.5), r.uniform(-2.5, 2.5), r.uniform(-2.5, 2.5))
            rr = math.sqrt(sum(v * v for v in c))
            if math.hypot(c[0], c[1]) > 0.2 and 0.15 < math.acos(c[2] / rr) < math.pi - 0.15 and abs(abs(math.atan2(c[1], c[0])) - math.pi) > 0.05:
                break
        if c[1] < 0:
            rec.hit("negative_y")
        q = {n: from_cart(n, c) for n in S}
        pts = {n: AppliedPoint([sympy.Float(v, 30) for v in q[n]], S[n]) for n in S}
        mats = {}
        for a, b in pairs:
            case = {"point_cartesian": list(c), "old": a, "new": b}
            rec.case(case, nontrivial=all(abs(v) > 0.05 for v in c))
            subs_b = dict(zip(S[b].base_scalars, q[b]))
            try:
                # (1) scalars of a expressed through scalars of b
                m = express_base_scalars(S[a], S[b])
                got = [fl(m[s].subs(subs_b)) for s in S[a].base_scalars]
                rec.hit("scalars")
                if not same_coords(a, got, q[a]):
                    rec.violation(f"scalars:{a}({b})", f"{a} scalars from {b} coordinates {q[b]}: {got}, geometry {q[a]}", case)
                    continue
                # A -> B -> A substituted == identity
                back = express_base_scalars(S[b], S[a])
                comp = [fl(m[s].subs({sb: back[sb] for sb in S[b].base_scalars}, simultaneous=True).subs(dict(zip(S[a].base_scalars, q[a])))) for s in S[a].base_scalars]
                rec.hit("roundtrip")
                if not same_coords(a, comp, q[a], 1e-8):
                    rec.violation(f"roundtrip:{a}->{b}->{a}", f"{a}->{b}->{a} at {q[a]} gives {comp}", case)
                    continue
                # (2) direct == via the third system
                third = [n for n in S if n not in (a, b)][0]
                m_at = express_base_scalars(S[a], S[third])
                m_tb = express_base_scalars(S[third], S[b])
                via = [fl(m_at[s].subs({st: m_tb[st] for st in S[third].base_scalars}, simultaneous=True).subs(subs_b)) for s in S[a].base_scalars]
                rec.hit("via_third")
                if not same_coords(a, via, got, 1e-8):
                    rec.violation(f"via-third:{a}({third}({b}))", f"{a} from {b} via {third}: {via}, direct {got}", case)
                    continue
                # (4) convert_point preserves the Cartesian position
                pb = convert_point(pts[a], S[b])
                gotb = [fl(pb[s]) for s in S[b].base_scalars]
                rec.hit("point")
                if not all(close(u, v, 1e-8) for u, v in zip(to_cart(b, gotb), c)):
                    rec.violation(f"point:{a}->{b}", f"convert_point {q[a]} ({a}) -> {gotb} ({b}) moves the Cartesian position {c} to {to_cart(b, gotb)}", case)
                    continue
                # (4') points with symbolic coordinates: fresh symbols, the system's own base scalars in another order, simple
                # expressions of them - converted symbolically, then evaluated
                style = r.choice(["fresh", "permuted", "expressions"])
                own = list(S[a].base_scalars)
                if style == "fresh":
                    coords = list(sympy.symbols("u_1 u_2 u_3", real=True))
                    vals = dict(zip(coords, q[a]))
                    num = list(q[a])
                else:
                    # numeric values of the own base scalars chosen so that the permuted / shifted coordinates are a valid point
                    perm = r.choice([(1, 0, 2), (0, 2, 1), (2, 1, 0), (1, 2, 0)]) if (style == "permuted" and a == "cart") else (0, 1, 2)
                    if style == "permuted" or a != "cart":
                        coords = [own[j] for j in perm]
                        vals = {own[j]: q[a][i] for i, j in enumerate(perm)}
                    else:
                        coords = [2 * own[1], own[0] + 1, own[2]]
                        vals = {own[1]: q[a][0] / 2, own[0]: q[a][1] - 1, own[2]: q[a][2]}
                    num = list(q[a])
                sp_ = AppliedPoint(coords, S[a])
                spb = convert_point(sp_, S[b])
                gots = [fl(sympy.sympify(spb[sc]).subs(vals, simultaneous=True)) for sc in S[b].base_scalars]
                rec.hit("symbolic_point")
                if not all(close(u, v, 1e-8) for u, v in zip(to_cart(b, gots), c)):
                    rec.violation(f"symbolic-point:{a}->{b}:{style}", f"convert_point of the symbolic point {coords} ({a}; evaluated at {num}) -> {[str(spb[sc])[:40] for sc in S[b].base_scalars]} = {gots} ({b}) has Cartesian position {to_cart(b, gots)}, expected {c}", dict(case, style=style))
                    continue
                # (3) base vectors
                args_a = () if a == "cart" else (pts[a],)
                args_b = () if b == "cart" else (pts[b],)
                mv = express_base_vectors(S[a], S[b], old_args=args_a, new_args=args_b)
                ea, eb = S[a].base_vectors(*args_a), S[b].base_vectors(*args_b)
                M = matrix_of(mv, ea, eb, subs_b)
                mats[(a, b)] = M
                Ba, Bb = basis(a, q[a]), basis(b, q[b])
                rec.hit("base_vectors")
                ok = True
                for i in range(3):
                    vec = [sum(M[i][j] * Bb[j][k] for j in range(3)) for k in range(3)]
                    if not all(close(vec[k], Ba[i][k], 1e-8) for k in range(3)):
                        rec.violation(f"base-vector:{a}->{b}:{i}", f"base vector {i} of {a} expressed in {b} at {q[b]} is {vec} in Cartesian components, geometry {Ba[i]}", case)
                        ok = False
                        break
                MtM = [[sum(M[k][i] * M[k][j] for k in range(3)) for j in range(3)] for i in range(3)]
                if ok and not all(close(MtM[i][j], 1.0 if i == j else 0.0, 1e-8) for i in range(3) for j in range(3)):
                    rec.violation(f"not-orthonormal:{a}->{b}", f"base-vector matrix {a}->{b} at {q[b]} is not orthonormal: M^T M = {MtM}", case)
                    ok = False
                if ok and not close(det3(M), 1.0, 1e-8):
                    rec.violation(f"not-a-rotation:{a}->{b}", f"det of the base-vector matrix {a}->{b} = {det3(M)}", case)
                    ok = False
                if not ok:
                    continue
                # (5) convert_vector preserves Cartesian components
                coef = [r.uniform(-2, 2) for _ in range(3)]
                vec_expr = sum(sympy.Float(coef[i], 30) * ea[i] for i in range(3))
                nv_raw = convert_vector(vec_expr, pts[a], S[b])
                want_c = [sum(coef[i] * Ba[i][k] for i in range(3)) for k in range(3)]
                from symplyphysics.core.experimental.vectors import AppliedVectorFunction, VectorSymbol

                def cartesian_of(vec, sysname, default_basis, label):
                    """Cartesian components of a vector written in the base vectors of `sysname` (+ what is left over)"""
                    vec = sympy.expand(vec)
                    got = [0.0, 0.0, 0.0]
                    rest_ = vec
                    raw = S[sysname].args[1]
                    for atom in vec.atoms(AppliedVectorFunction, VectorSymbol):
                        j = None
                        for jj, rb in enumerate(raw):
                            if atom == rb or getattr(atom, "func", None) == rb:
                                j = jj
                        if j is None:
                            continue
                        if isinstance(atom, AppliedVectorFunction):
                            # base vector attached to the point computed by the library: use *that* point's coordinates
                            pt = atom.args[0]
                            qq = [fl(pt[sc]) for sc in S[sysname].base_scalars]
                            if not all(close(u, v, 1e-8) for u, v in zip(to_cart(sysname, qq), c)):
                                rec.violation(f"vector-attached-to-moved-point:{label}", f"convert_vector attaches the result to {qq} ({sysname}), Cartesian {to_cart(sysname, qq)}, expected {c}", case)
                            Bj = basis(sysname, qq)[j]
                        else:
                            Bj = default_basis[j]
                        cj = vec.coeff(atom)
                        rest_ = rest_ - cj * atom
                        for k in range(3):
                            got[k] += fl(cj) * Bj[k]
                    return got, rest_
                got_c, rest = cartesian_of(nv_raw, b, Bb, f"{a}->{b}")
                rec.hit("vector")
                if sympy.simplify(rest) != 0 or not all(close(u, v, 1e-8) for u, v in zip(got_c, want_c)):
                    rec.violation(f"vector:{a}->{b}", f"convert_vector of {coef} ({a} basis at {q[a]}) gives Cartesian {got_c} (+ residual {str(rest)[:60]}), expected {want_c}", case)
                    continue
                # (5') the same vector written with brackets, and the result of one conversion (as returned, not expanded)
                # converted on: back to the first system and to the third one
                k_ = sympy.Float(r.uniform(0.5, 2), 30)
                bracketed = k_ * (sympy.Float(coef[0], 30) / k_ * ea[0] + sympy.Float(coef[1], 30) / k_ * ea[1]) + sympy.Float(coef[2], 30) * ea[2]
                got_b, rest_b = cartesian_of(convert_vector(bracketed, pts[a], S[b]), b, Bb, f"{a}->{b}")
                rec.hit("vector_bracketed")
                if sympy.simplify(rest_b) != 0 or not all(close(u, v, 1e-8) for u, v in zip(got_b, want_c)):
                    rec.violation(f"vector:{a}->{b}:bracketed", f"convert_vector of the bracketed {str(bracketed)[:80]} gives Cartesian {got_b} (+ residual {str(rest_b)[:60]}), expected {want_c}", case)
                    continue
                for target in (a, third):
                    Bt = basis(target, q[target])
                    onward = convert_vector(nv_raw, pb, S[target])
                    got_t, rest_t = cartesian_of(onward, target, Bt, f"{a}->{b}->{target}")
                    rec.hit("vector_chain")
                    if sympy.simplify(rest_t) != 0 or not all(close(u, v, 1e-8) for u, v in zip(got_t, want_c)):
                        rec.violation(f"vector-chain:{a}->{b}->{target}", f"convert_vector {a}->{b}->{target} of {coef} gives Cartesian {got_t} (+ residual {str(rest_t)[:60]}), expected {want_c}", case)
                        break
            except Exception as e:  # pylint: disable=broad-except
                rec.violation(f"raises:{a}->{b}:{type(e).__name__}", f"conversion {a}->{b} at {q[a]} raised {type(e).__name__}: {str(e)[:120]}", case)
                continue
        # inverse == transpose of the reverse conversion at corresponding points
        for a, b in pairs:
            if (a, b) in mats and (b, a) in mats:
                rec.hit("inverse_transpose")
                M, Mr = mats[(a, b)], mats[(b, a)]
                if not all(close(M[i][j], Mr[j][i], 1e-8) for i in range(3) for j in range(3)):
                    rec.violation(f"inverse-not-reverse:{a}<->{b}", f"M({a}->{b}) is not the transpose of M({b}->{a}) at {c}", {"point_cartesian": list(c), "pair": [a, b]})
        # (6) Lame coefficients - of the systems used so far and, every few points, of systems created just now (each system
        # has scale factors in its own coordinates, however many systems the process has created before)
        lame_sets = [S]
        if it % 5 == 0:
            lame_sets.append({"cart": S["cart"], "cyl": CylindricalCoordinateSystem(), "sph": SphericalCoordinateSystem()})
            rec.hit("lame_of_fresh_systems")
        for SS in lame_sets:
          for n in SS:
            rec.hit("lame")
            try:
                h = [fl(sympy.sympify(x).subs(dict(zip(SS[n].base_scalars, q[n])))) for x in SS[n].lame_coefficients]
            except (TypeError, ValueError) as x_:
                rec.violation(f"lame:{n}:not-in-own-coordinates", f"Lame coefficients {SS[n].lame_coefficients} of a {n} system are not functions of its own base scalars {SS[n].base_scalars} ({type(x_).__name__})", {"system": n})
                continue
            # from the library's own Cartesian map
            cm = express_base_scalars(SS["cart"], SS[n]) if n != "cart" else {s: s for s in SS["cart"].base_scalars}
            xyz = [cm[s] for s in SS["cart"].base_scalars]
            own = []
            fd = []
            for i, qi in enumerate(SS[n].base_scalars):
                d = [fl(sympy.diff(e, qi).subs(dict(zip(SS[n].base_scalars, q[n])))) for e in xyz]
                own.append(math.sqrt(sum(v * v for v in d)))
                eps = 1e-6
                qp = list(q[n]); qm = list(q[n])
                qp[i] += eps; qm[i] -= eps
                cp, cm_ = to_cart(n, qp), to_cart(n, qm)
                fd.append(math.sqrt(sum(((u - v) / (2 * eps)) ** 2 for u, v in zip(cp, cm_))))
            if not all(close(h[i], own[i], 1e-8) for i in range(3)) or not all(close(h[i], fd[i], 1e-5) for i in range(3)):
                rec.violation(f"lame:{n}", f"Lame coefficients of {n} at {q[n]}: {h}; |dr/dq| from the library map {own}, from finite differences {fd}", {"system": n, "point": list(q[n])})
        if len(rec.samples) < 2:
            rec.sample({"point_cartesian": list(c), "coordinates": {n: list(v) for n, v in q.items()}})
    if spec["shard"] == 0:
        refusals(rec, S)


def refusals(rec, S):
    import sympy
    from symplyphysics.core.experimental.coordinate_systems import express_base_scalars, express_base_vectors, convert_point, BaseCoordinateSystem
    from symplyphysics.core.experimental.points import AppliedPoint

    def must_refuse(name, fn):
        rec.hit("refusal")
        rec.case(("refusal", name))
        try:
            res = fn()
        except (TypeError, ValueError):
            return
        except Exception as e:  # pylint: disable=broad-except
            rec.note(f"{name} refused by {type(e).__name__}")
            return
        rec.violation(f"not-refused:{name}", f"{name} returned {str(res)[:100]}", {"refusal": name})
    must_refuse("point with 2 coordinates", lambda: AppliedPoint([1, 2], S["cart"]))
    must_refuse("point with 4 coordinates", lambda: AppliedPoint([1, 2, 3, 4], S["cyl"]))
    must_refuse("express_base_scalars(non-system)", lambda: express_base_scalars(S["cart"], sympy.Symbol("x")))
    must_refuse("express_base_vectors(non-system)", lambda: express_base_vectors(sympy.Symbol("x"), S["sph"]))
    must_refuse("express_base_vectors(cyl->sph without points)", lambda: express_base_vectors(S["cyl"], S["sph"]))
    must_refuse("convert_point(non-system)", lambda: convert_point(AppliedPoint([1, 2, 3], S["cart"]), "spherical"))


def replay(case, rec):
    rec.note("points are regenerated from (seed, shard); rerun with the same VERIF_SEED: " + str(case)[:300])
