"""C14 - coordinate-free vector algebra simplification preserves value in R^3.
Workload: seeded random expression trees over vector/scalar symbols; built through the real constructors
(auto-evaluation), through evaluate=False + .doit() ("on request"), and differentiated with .diff(t).
Monitor/oracle: R^3 interpreter of the generator tree vs R^3 interpreter of the returned SymPy object."""
from __future__ import annotations

import itertools

import mpmath

from vf import harness, vecsem

RULE = ("seeded random expression trees (sums, scalar multiples, dot, cross, mixed, norm; nested/repeated/composite "
        "arguments emphasised) over 2-4 vector symbols drawn from a pool of freshly created VectorSymbols so that the id() "
        "rank of each role is a random permutation (logged); each tree is built with auto-evaluation and with "
        "evaluate=False+doit(), and evaluated at 3 random real assignments with two independent R^3 interpreters "
        "(40-digit mpmath, tol 1e-18 relative); derivative cases use vector/scalar functions of t with random polynomial "
        "assignments and forward-mode dual numbers on the tree as reference. A case is non-trivial when its tree contains at "
        "least one product node (dot/cross/mixed/norm) and its reference value is non-zero at some assignment; distinct = "
        "distinct (tree, id-rank permutation, mode).")
RULE = RULE + ' Also: vector functions of a rescaled parameter w(k t) (what the library returns must be the derivative; NotImplementedError is inconclusive).'
ASSUMPTIONS = ["the R^3 coordinate formulas in vf/vecsem.py define the meaning of dot/cross/mixed/norm",
               "assignments are random reals in [-2,2] (scalars bounded away from 0); agreement at 3 points of a polynomial/"
               "algebraic identity is taken as agreement (Schwartz-Zippel)"]
N = {"quick": dict(trees=3200, depth=3, deriv=320), "thorough": dict(trees=96000, depth=5, deriv=9600)}
MIN_REACH = {"quick": {"shared_display_names": 400, "deriv_order2": 40, "value_compared": 2500, "deriv_compared": 200, "mode:auto": 1000, "mode:doit": 800},
             "thorough": {"value_compared": 60000, "deriv_compared": 6000}}
SHARD_TIMEOUT = {"quick": 900, "thorough": 3000}
NUMS = ["-3", "-2", "-1", "2", "3", "1/2", "-1/3"]


def plan(tier, seed):
    n = N[tier]
    shards = 16
    return [{"_label": f"shard{i}", "tier": tier, "seed": seed, "shard": i, "trees": n["trees"] // shards,
             "depth": n["depth"], "deriv": n["deriv"] // shards} for i in range(shards)]


# ---------------- generator ----------------
def gen_vec(r, depth, nv, ns, rep):
    if depth <= 0 or r.random() < 0.25:
        return ["v", r.randrange(nv)]
    k = r.random()
    if k < 0.22:
        return [r.choice(["vadd", "vadd", "vsub"]), gen_vec(r, depth - 1, nv, ns, rep), gen_vec(r, depth - 1, nv, ns, rep)]
    if k < 0.42:
        return ["vscale", gen_sc(r, depth - 1, nv, ns, rep), gen_vec(r, depth - 1, nv, ns, rep)]
    if k < 0.47:
        return ["vneg", gen_vec(r, depth - 1, nv, ns, rep)]
    if k < 0.50:
        return ["vdiv", gen_vec(r, depth - 1, nv, ns, rep), ["s", r.randrange(ns)]]
    a = gen_vec(r, depth - 1, nv, ns, rep)
    b = a if r.random() < rep else gen_vec(r, depth - 1, nv, ns, rep)
    return ["cross", a, b] if r.random() < 0.5 else ["cross", b, a]


def gen_sc(r, depth, nv, ns, rep):
    if depth <= 0 or r.random() < 0.2:
        return ["s", r.randrange(ns)] if r.random() < 0.6 else ["num", r.choice(NUMS)]
    k = r.random()
    if k < 0.38:
        a = gen_vec(r, depth - 1, nv, ns, rep)
        b = a if r.random() < rep else gen_vec(r, depth - 1, nv, ns, rep)
        return ["dot", a, b]
    if k < 0.60:
        a = gen_vec(r, depth - 1, nv, ns, rep)
        b = gen_vec(r, depth - 1, nv, ns, rep)
        c = r.choice([a, b]) if r.random() < rep else gen_vec(r, depth - 1, nv, ns, rep)
        args = [a, b, c]
        r.shuffle(args)
        return ["mixed"] + args
    if k < 0.75:
        return ["norm", gen_vec(r, depth - 1, nv, ns, rep)]
    if k < 0.86:
        return ["sadd", gen_sc(r, depth - 1, nv, ns, rep), gen_sc(r, depth - 1, nv, ns, rep)]
    if k < 0.96:
        return ["smul", gen_sc(r, depth - 1, nv, ns, rep), gen_sc(r, depth - 1, nv, ns, rep)]
    return ["spow", gen_sc(r, depth - 1, nv, ns, rep), 2]


def has_product(t):
    if not isinstance(t, list):
        return False
    if t[0] in ("dot", "cross", "mixed", "norm"):
        return True
    return any(has_product(x) for x in t[1:])


def skeleton(t, d=2):
    if not isinstance(t, list):
        return ""
    if t[0] in ("v", "s", "num", "vzero"):
        return t[0]
    if d == 0:
        return t[0]
    return t[0] + "(" + ",".join(skeleton(x, d - 1) for x in t[1:] if isinstance(x, list)) + ")"


def build(t, V, S, ev):
    """construct through the real library; ev=None -> auto-evaluation, False -> unevaluated product nodes"""
    import sympy
    from symplyphysics.core.experimental.vectors import VectorCross, VectorDot, VectorMixedProduct, VectorNorm
    kw = {} if ev is None else {"evaluate": ev}
    k = t[0]
    b = lambda x: build(x, V, S, ev)
    if k == "v":
        return V[t[1]]
    if k == "s":
        return S[t[1]]
    if k == "num":
        return sympy.Rational(t[1])
    if k == "vzero":
        return sympy.S.Zero
    if k == "vadd":
        return b(t[1]) + b(t[2])
    if k == "vsub":
        return b(t[1]) - b(t[2])
    if k == "vneg":
        return -b(t[1])
    if k == "vscale":
        return b(t[2]) * b(t[1])
    if k == "vdiv":
        return b(t[1]) / b(t[2])
    if k == "cross":
        return VectorCross(b(t[1]), b(t[2]), **kw)
    if k == "dot":
        return VectorDot(b(t[1]), b(t[2]), **kw)
    if k == "mixed":
        return VectorMixedProduct(b(t[1]), b(t[2]), b(t[3]), **kw)
    if k == "norm":
        return VectorNorm(b(t[1]), **kw)
    if k == "sadd":
        return b(t[1]) + b(t[2])
    if k == "smul":
        return b(t[1]) * b(t[2])
    if k == "spow":
        return b(t[1]) ** t[2]
    raise ValueError(k)


def make_symbols(case):
    """fresh pool of VectorSymbols; role j gets the pool object whose id() rank is case['rank'][j]"""
    from symplyphysics import Symbol
    from symplyphysics.core.experimental.vectors import VectorSymbol
    nv, ns = case["nv"], case["ns"]
    names = case.get("names") or [f"p{j}" for j in range(case["pool"])]
    pool = [VectorSymbol(n) if n else VectorSymbol() for n in names]
    by_id = sorted(pool, key=id)
    V = [by_id[k] for k in case["rank"]]
    S = []
    for j in range(ns):
        a = case["assume"][j]
        S.append(Symbol(f"s{j}", **({a: True} if a else {})))
    return V, S, pool


def draw_values(r, case):
    vv = [tuple(mpmath.mpf(r.randint(-2000, 2000)) / 1000 for _ in range(3)) for _ in range(case["nv"])]
    sv = []
    for j in range(case["ns"]):
        mag = mpmath.mpf(r.randint(500, 2000)) / 1000
        a = case["assume"][j]
        sign = 1 if a == "positive" else -1 if a == "negative" else r.choice([-1, 1])
        sv.append(sign * mag)
    return vv, sv


def nonzero(x):
    if vecsem.isvec(x):
        return any(vecsem._val(c) != 0 for c in x)
    return vecsem._val(x) != 0


def run_value_case(case, rec, r):
    import sympy
    tree, mode = case["tree"], case["mode"]
    try:
        with harness.Watchdog(30):
            V, S, pool = make_symbols(case)
            if mode == "auto":
                e = build(tree, V, S, None)
            else:
                e = build(tree, V, S, False)
                e = e.doit() if hasattr(e, "doit") else e
            e = sympy.sympify(e)
    except TimeoutError:
        rec.inconc("watchdog: construction/doit exceeded 30 s", case)
        return
    except Exception as x:  # pylint: disable=broad-except
        rec.violation(f"raises:{mode}:{type(x).__name__}:{skeleton(tree)}",
                      f"building {mode} raised {type(x).__name__}: {str(x)[:150]}", case)
        return
    nontriv = False
    ok = True
    for _ in range(3):
        vv, sv = draw_values(r, case)
        env = {V[j]: vv[j] for j in range(case["nv"])}
        env.update({S[j]: sv[j] for j in range(case["ns"])})
        try:
            want = vecsem.sem(tree, vv, sv)
        except ZeroDivisionError:
            continue
        try:
            got = vecsem.interp(e, env)
        except vecsem.Uninterpretable as x:
            rec.violation(f"uninterpretable:{mode}:{skeleton(tree)}", f"returned object has no R^3 meaning: {x}; returned {str(e)[:200]}", case)
            return
        except ZeroDivisionError:
            continue
        good, d, sc = vecsem.close(want, got)
        nontriv = nontriv or nonzero(want)
        if not good:
            ok = False
            rec.violation(f"value:{mode}:{skeleton(tree)}",
                          f"{mode}: written value {_fmt(want)} != returned value {_fmt(got)}; returned expr {str(e)[:300]}", case)
            break
    rec.case((tree, case["rank"], mode), nontrivial=nontriv and has_product(tree))
    rec.hit("value_compared")
    rec.hit("mode:" + mode)
    if case.get("names") and len(set(case["names"])) < len(case["names"]):
        rec.hit("shared_display_names")
    rec.extra.setdefault("rank_perms", {})
    key = "".join(map(str, case["rank"]))
    rec.extra["rank_perms"][key] = rec.extra["rank_perms"].get(key, 0) + 1
    if ok and len(rec.samples) < 4:
        rec.sample({"tree": tree, "mode": mode, "rank": case["rank"], "returned": str(e)[:200]})


def _fmt(x):
    if vecsem.isvec(x):
        return "(" + ", ".join(mpmath.nstr(vecsem._val(c), 8) for c in x) + ")"
    return mpmath.nstr(vecsem._val(x), 10)


def run_deriv_case(case, rec, r):
    """tree leaves: v_i -> vector function v_i(t); s_j -> scalar function f_j(t) (j < nf) or constant symbol"""
    import sympy
    from symplyphysics import Symbol
    from symplyphysics.core.experimental.vectors import VectorFunction
    tree = case["tree"]
    nv, ns, nf = case["nv"], case["ns"], case["nf"]
    try:
        with harness.Watchdog(30):
            t = Symbol("t", real=True)
            pool = [VectorFunction(f"w{j}", (t,)) for j in range(case["pool"])]
            by_id = sorted(pool, key=id)
            VF = [by_id[k] for k in case["rank"]]
            scales = [sympy.Rational(k) for k in case.get("scales", ["1"] * nv)]
            V = [f(k * t) for f, k in zip(VF, scales)]
            S = []
            for j in range(ns):
                if j < nf:
                    S.append(sympy.Function(f"f{j}", real=True)(t))
                else:
                    S.append(Symbol(f"c{j}", real=True))
            e = build(tree, V, S, None)
            order = case.get("order", 1)
            de = sympy.sympify(e).diff(t, order)
    except TimeoutError:
        rec.violation(f"deriv-timeout:order{case.get('order', 1)}:" + skeleton(tree), "differentiation did not terminate within 30 s", case)
        return
    except NotImplementedError as x:
        rec.inconc("diff raises NotImplementedError" + (" (rescaled parameter)" if case.get("scales") else ""), {"tree": tree, "err": str(x)})
        return
    except Exception as x:  # pylint: disable=broad-except
        rec.violation(f"deriv-raises:{type(x).__name__}:order{case.get('order', 1)}:{skeleton(tree)}", f"diff raised {type(x).__name__}: {str(x)[:150]}", case)
        return
    ok = True
    nontriv = False
    for _ in range(3):
        t0 = mpmath.mpf(r.randint(-1500, 1500)) / 1000
        # random polynomials of degree 2 in t: values and derivatives at t0
        polys = {}

        def poly():
            c = [mpmath.mpf(r.randint(-2000, 2000)) / 1000 for _ in range(3)]
            return c

        def pval(c, tt):
            return c[0] + c[1] * tt + c[2] * tt * tt
        env = {t: t0}
        vcoef = [[poly() for _ in range(3)] for _ in range(nv)]
        scoef = []
        for j in range(ns):
            if j < nf:
                c = poly()
                if abs(pval(c, t0)) < 0.2:
                    c[0] = c[0] + 1
                scoef.append(c)
            else:
                scoef.append([mpmath.mpf(r.randint(500, 2000)) / 1000 * r.choice([-1, 1]), mpmath.mpf(0), mpmath.mpf(0)])
        kk = [mpmath.mpf(k.p) / k.q for k in scales]
        if case.get("scales"):
            rec.hit("deriv_rescaled_parameter_returned")
            # w_j(k t) with w_j a quadratic: the same quadratic in t with coefficients (c0, k c1, k^2 c2)
            vcoef = [[[c[0], c[1] * kk[j], c[2] * kk[j] ** 2] for c in vcoef[j]] for j in range(nv)]
        for j in range(nv):
            env[V[j]] = tuple(pval(c, t0) for c in vcoef[j])
            env[(V[j], 1)] = tuple(c[1] + 2 * c[2] * t0 for c in vcoef[j])
            env[(V[j], 2)] = tuple(2 * c[2] for c in vcoef[j])
            env[(V[j], 3)] = (mpmath.mpf(0),) * 3
        for j in range(ns):
            c = scoef[j]
            env[S[j]] = pval(c, t0)
            if j < nf:
                env[(S[j], 1)] = c[1] + 2 * c[2] * t0
                env[(S[j], 2)] = 2 * c[2]
                env[(S[j], 3)] = mpmath.mpf(0)
        try:
            if order == 1:
                vv_d = [tuple(vecsem.Dual(pval(c, t0), c[1] + 2 * c[2] * t0) for c in vcoef[j]) for j in range(nv)]
                sv_d = [vecsem.Dual(pval(c, t0), c[1] + 2 * c[2] * t0) for c in scoef]
                want = vecsem.sem(tree, vv_d, sv_d)
                want_d = tuple(vecsem.Dual.c(c).b for c in want) if vecsem.isvec(want) else vecsem.Dual.c(want).b
            else:
                def at(tt):
                    return vecsem.sem(tree, [tuple(pval(c, tt) for c in vcoef[j]) for j in range(nv)], [pval(c, tt) for c in scoef])
                w0 = at(t0)
                with mpmath.workdps(60):
                    if vecsem.isvec(w0):
                        want_d = tuple(mpmath.diff(lambda tt, i=i: at(tt)[i], t0, order) for i in range(3))
                    else:
                        want_d = mpmath.diff(at, t0, order)
            got = vecsem.interp(de, env)
        except ZeroDivisionError:
            continue
        except vecsem.Uninterpretable as x:
            if case.get("scales"):
                rec.inconc("derivative of a rescaled-parameter function in a form the interpreter does not read")
                return
            rec.violation(f"deriv-uninterpretable:{skeleton(tree)}", f"derivative has no R^3 meaning: {x}; {str(de)[:200]}", case)
            return
        good, d, sc = vecsem.close(want_d, got, tol=mpmath.mpf("1e-18") if order == 1 else mpmath.mpf("1e-12"))
        nontriv = nontriv or nonzero(want_d)
        if not good:
            ok = False
            rec.violation(f"deriv-value:{skeleton(tree)}", f"d/dt of written expression {_fmt(want_d)} != returned derivative {_fmt(got)}; {str(de)[:300]}", case)
            break
    rec.case((tree, case["rank"], "diff"), nontrivial=nontriv and has_product(tree))
    rec.hit("deriv_compared")
    rec.hit(f"deriv_order{order}")
    if ok and len(rec.samples) < 6:
        rec.sample({"tree": tree, "mode": "diff", "derivative": str(de)[:200]})


def make_case(r, depth, deriv=False):
    nv = r.randint(2, 4)
    ns = 2
    pool = nv * 2
    rank = r.sample(range(pool), nv)
    rep = r.choice([0.0, 0.15, 0.4])
    isv = r.random() < 0.4
    tree = gen_vec(r, depth, nv, ns, rep) if isv else gen_sc(r, depth, nv, ns, rep)
    style = r.random()
    if style < 0.2:
        names = ["r"] * pool            # distinct symbols sharing one display name
    elif style < 0.3:
        names = [r.choice(["r", "F", "v"]) for _ in range(pool)]
    elif style < 0.4:
        names = [None] * pool           # default generated display names
    else:
        names = [f"p{j}" for j in range(pool)]
    case = {"tree": tree, "nv": nv, "ns": ns, "pool": pool, "rank": rank, "names": names,
            "assume": [r.choice(["real", "real", None, "positive", "negative"]) for _ in range(ns)]}
    if deriv:
        case["nf"] = r.randint(0, 2)
        case["mode"] = "diff"
        case["order"] = 2 if r.random() < 0.3 else 1
        case["names"] = None
        # a share of the cases applies the vector functions to a rescaled parameter, w(k t): the library may decline these
        # (NotImplementedError: inconclusive), but what it returns must be the derivative
        if r.random() < 0.15:
            case["scales"] = [r.choice(["1", "2", "-1", "1/2", "3"]) for _ in range(nv)]
            if all(k == "1" for k in case["scales"]):
                case["scales"][0] = "2"
    return case


def work(spec, rec):
    r = harness.rng_for("C14", spec["seed"], spec["shard"])
    for i in range(spec["trees"]):
        rec.checkpoint()
        case = make_case(r, spec["depth"] if i % 4 else max(2, spec["depth"] - 1))
        for mode in (("auto", "doit") if i % 2 == 0 else ("auto",)):
            c = dict(case, mode=mode)
            run_value_case(c, rec, r)
    for i in range(spec["deriv"]):
        case = make_case(r, min(3, spec["depth"]), deriv=True)
        run_deriv_case(case, rec, r)
    # targeted family: every nesting of two product nodes over <=4 distinct symbols (exhaustive shapes, shard 0 only)
    if spec["shard"] == 0:
        targeted(rec, r)


def targeted(rec, r):
    """Small exhaustive family: dot/cross/mixed of (atom | cross(atom, atom)) with all argument choices from 3 symbols."""
    atoms = [["v", i] for i in range(3)]
    crosses = [["cross", a, b] for a in atoms for b in atoms if a != b]
    operands = atoms + crosses
    trees = []
    for a, b in itertools.product(operands, repeat=2):
        trees.append(["dot", a, b])
        trees.append(["cross", a, b])
    for a, b, c in itertools.product(atoms + crosses[:2], repeat=3):
        trees.append(["mixed", a, b, c])
    for tree in trees:
        for rank in ([0, 1, 2], [2, 0, 1], [1, 2, 0], [2, 1, 0]):
            case = {"tree": tree, "nv": 3, "ns": 0, "pool": 3, "rank": rank, "assume": [], "mode": "auto"}
            run_value_case(case, rec, r)
            rec.hit("targeted")


def replay(case, rec):
    r = harness.rng_for("C14", "replay")
    if case.get("mode") == "diff":
        run_deriv_case(case, rec, r)
    else:
        run_value_case(case, rec, r)
    rec.note("replayed case: " + str(case)[:500])
