"""C03 - laws load and mean the same for every import order and creation history.
Workload: N fresh processes, each with a different controlled pre-history (import order, id-counter bumps across digit
boundaries, real object creations), each importing the whole catalogue (plus processes importing a single module alone).
Monitor: per module import outcome, per published equation a fingerprint (structure + numeric values at fixed
environments keyed by leaf identity), per probed calculate_* function its result on fixed arguments.
Oracle: comparison with the canonical-history process."""
from __future__ import annotations

import hashlib
import json

import mpmath

from vf import catalogue, harness, numeval

RULE = ("a history = (import order, id-counter bumps per prefix SYM/FUN/QTY/VEC/SYS applied through the real next_id, real "
        "object creations before and between imports); each history runs in its own fresh interpreter, imports every catalogue "
        "module of the working tree catching exceptions, and emits import outcome, equation fingerprints and probe results, "
        "compared with the canonical history (alphabetical order, no bumps). Isolated histories import one module alone. "
        "evaluations = (history, module) pairs; non-trivial = history differs from canonical; distinct = distinct (history, module).")
RULE = RULE + ' Also: a digit-boundary sweep re-executes every module body with the SYM/FUN/QTY counters placed so that its 1st..4th (thorough 1st..10th) own symbol is the last one with 3, 4, 5 ... digits and compares equations and calculate_* probes with the first import; probes try up to five deterministic argument tuples and cover parameters the decorators do not declare.'
ASSUMPTIONS = ["PYTHONHASHSEED is fixed (hash-seed dependence is not part of the property)",
               "numeric fingerprints use fixed smooth stand-ins for undefined functions",
               "a dependence that needs one specific counter value outside the swept patterns is missed"]
MIN_REACH = {"quick": {"boundary_reimports": 2400, "histories": 14, "modules_compared": 10000, "equations_compared": 10000, "probes_compared": 4000, "isolated": 30},
             "thorough": {"histories": 60, "modules_compared": 40000, "isolated": 600, "boundary_reimports": 6000}}
SHARD_TIMEOUT = {"quick": 900, "thorough": 3000}
PREFIXES = ["SYM", "FUN", "QTY", "VEC", "SYS", ""]


def histories(tier, seed):
    r = harness.rng_for("C03", seed)
    hs = [{"name": "canonical", "order": "alpha", "bumps": {}, "creations": 0}]
    hs.append({"name": "reversed", "order": "reversed", "bumps": {}, "creations": 0})
    nshuf = 4 if tier == "quick" else 24
    for i in range(nshuf):
        hs.append({"name": f"shuffle{i}", "order": f"shuffle:{seed}:{i}", "bumps": {}, "creations": r.choice([0, 0, 25, 300])})
    # counter bumps: cross 9/10, 99/100, 999/1000, 9999/10000 during the imports; sweep lexicographic position
    pats = [{"SYM": 50}, {"SYM": 700, "FUN": 5}, {"SYM": 9750, "FUN": 95, "QTY": 990}, {"SYM": 1000, "QTY": 50}, {"FUN": 990, "SYM": 3},
            {"SYM": 99990 - 247, "FUN": 9, "QTY": 9}, {"QTY": 9990, "VEC": 9, "SYS": 9}, {"SYM": 8753 + r.randint(0, 50)},
            {"SYM": r.randint(1, 120), "FUN": r.randint(1, 120), "QTY": r.randint(1, 120)},
            {"SYM": r.randint(100, 12000), "FUN": r.randint(1, 1200), "QTY": r.randint(1, 1200), "VEC": r.randint(0, 20), "SYS": r.randint(0, 20)}]
    if tier == "thorough":
        for i in range(60):
            pats.append({"SYM": int(10 ** r.uniform(0, 4.3)), "FUN": int(10 ** r.uniform(0, 3.2)), "QTY": int(10 ** r.uniform(0, 3.2)),
                         "VEC": r.randint(0, 120), "SYS": r.randint(0, 120), "": r.randint(0, 50)})
    for i, p in enumerate(pats):
        hs.append({"name": f"bump{i}", "order": r.choice(["alpha", "alpha", f"shuffle:{seed}:b{i}"]), "bumps": p,
                   "creations": r.choice([0, 0, 40])})
    return hs


def plan(tier, seed):
    names = catalogue.module_names()
    specs = []
    for h in histories(tier, seed):
        specs.append({"_label": h["name"], "kind": "full", "history": h, "seed": seed, "probe_every": 4 if tier == "quick" else 1})
    r = harness.rng_for("C03iso", seed)
    iso = r.sample(names, 48) if tier == "quick" else list(names)
    # digit-boundary sweep: each module body is re-executed with the counters placed so that its j-th own symbol is the last
    # one before 10^3, 10^4, ... (names cross a digit-count boundary *inside* the module)
    bmods = list(names)
    kb = 16
    for i in range(kb):
        part = bmods[i::kb]
        if part:
            specs.append({"_label": f"boundary{i}", "kind": "boundary", "modules": part, "seed": seed,
                          "offsets": [0, 1, 2, 3] if tier == "quick" else list(range(10))})
    # isolated modules: batches of fresh processes are expensive; one process per module, grouped per shard sequentially
    k = 16
    for i in range(k):
        part = iso[i::k]
        if part:
            specs.append({"_label": f"isolated{i}", "kind": "isolated", "modules": part, "seed": seed})
    return specs


# ---------- fingerprints ----------
def leaf_key(a):
    import sympy
    from sympy.core.function import AppliedUndef, UndefinedFunction
    dn = getattr(a, "display_name", None)
    dim = getattr(a, "dimension", None)
    if dn is None:
        return None
    ass = ""
    if isinstance(a, sympy.Symbol):
        ass = ",".join(f"{k}={v}" for k, v in sorted(a.assumptions0.items()) if k in ("positive", "real", "integer", "nonnegative", "negative", "complex"))
    return f"{dn}|{dim}|{ass}"


def canon(e, qmap):
    """history-independent structural string"""
    import sympy
    from sympy.physics.units import Quantity as SymQuantity
    from sympy.core.function import AppliedUndef
    if isinstance(e, (list, tuple)):
        return "[" + ",".join(canon(x, qmap) for x in e) + "]"
    if isinstance(e, SymQuantity):
        k = leaf_key(e) or str(e)
        if "QTY" in k:
            k = f"Q({sympy.N(e.scale_factor, 12)}|{getattr(e, 'dimension', '')})"
        return k
    if isinstance(e, sympy.Symbol):
        fac = getattr(e, "factor", None)
        if fac is not None and type(e).__mro__[1].__name__ == "Symbolic":
            return f"{type(e).__name__}({canon(fac, qmap)})"
        return leaf_key(e) or f"sym:{e.name}"
    if isinstance(e, sympy.IndexedBase):
        return leaf_key(e) or f"ib:{e}"
    if isinstance(e, sympy.Idx):
        return f"idx:{e}"
    if not getattr(e, "args", None):
        if hasattr(e, "display_name"):
            return leaf_key(e)
        return f"{type(e).__name__}:{e}"
    if isinstance(e, AppliedUndef):
        return f"{leaf_key(e.func) or e.func}(" + ",".join(canon(a, qmap) for a in e.args) + ")"
    parts = [canon(a, qmap) for a in e.args]
    if isinstance(e, (sympy.Add, sympy.Mul, sympy.And, sympy.Or, sympy.Min, sympy.Max)) or isinstance(e, sympy.Equality):
        if isinstance(e, sympy.Equality):
            pass
        else:
            parts = sorted(parts)
    return f"{type(e).__name__}(" + ",".join(parts) + ")"


def numeric_fp(eq, points=3):
    """values of lhs - rhs (or of the expression) at fixed environments keyed by leaf identity"""
    import sympy
    from sympy.core.relational import Relational
    from sympy.physics.units import Quantity as SymQuantity
    expr = (eq.lhs - eq.rhs) if isinstance(eq, Relational) and not isinstance(eq.lhs, sympy.MatrixBase) else eq
    if isinstance(expr, Relational) or expr.has(sympy.MatrixBase, sympy.Integral, sympy.Sum):
        return None

    def key(a):
        return leaf_key(a)
    out = []
    for p in range(points):
        env = {}
        for a in expr.atoms(sympy.Symbol):
            if isinstance(a, SymQuantity):
                continue
            k = leaf_key(a) or f"sym:{a.name}"
            hd = hashlib.sha1(f"{k}#{p}".encode()).digest()
            env[a] = mpmath.mpf(300 + int.from_bytes(hd[:2], "big") % 2700) / 1000
        try:
            v = numeval.Evaluator(env, key=key, quantity="scale_factor").ev(expr)
        except numeval.NotEvaluable:
            return None
        except Exception:  # pylint: disable=broad-except
            return None
        if not mpmath.isfinite(v):
            return None
        out.append(mpmath.nstr(v, 12))
    return out


def probe_args(func, g, attempt=0):
    """fixed, history-independent arguments for a calculate_* function: magnitude from the parameter name (and the number
    of the attempt: a function that refuses one tuple - outside its domain - is tried with up to four others)"""
    import inspect
    from vf.checks import c04
    inner = g["inner"]
    params = list(inspect.signature(inner).parameters)
    kwargs = {}
    for p in params:
        if p not in g["inputs"]:
            return None
        kwargs[p] = c04.valid_arg(g["inputs"][p], c04.kind_of_param(inner, p), param_mag(func, p, attempt))
    return kwargs


def param_mag(func, p, attempt=0):
    hd = hashlib.sha1(f"{func.__name__}.{p}.{attempt}".encode() if attempt else f"{func.__name__}.{p}".encode()).digest()
    return 1 + (hd[0] % 40) / 10


class Unbuildable(Exception):
    pass


def build_from_annotation(ann, dim, mag):
    """an argument of the annotated shape whose Quantity leaves all have dimension `dim` and pairwise different magnitudes"""
    import typing
    import collections.abc
    from symplyphysics import Quantity, QuantityVector
    from symplyphysics.core.dimensions import dimension_to_si_unit
    counter = [0]

    def q():
        counter[0] += 1
        m = mag + 0.75 * (counter[0] - 1)
        return Quantity(m) if dim is None else Quantity(m * dimension_to_si_unit(dim))

    def b(a):
        if a is Quantity:
            return q()
        if a is QuantityVector:
            return QuantityVector([q(), q(), q()])
        if a is int:
            return 3
        if a is float:
            return float(mag)
        origin, args = typing.get_origin(a), typing.get_args(a)
        if origin is tuple and args and Ellipsis not in args:
            return tuple(b(x) for x in args)
        if origin in (tuple, list, collections.abc.Sequence, collections.abc.Iterable) and args:
            return [b(args[0]), b(args[0])]
        raise Unbuildable(str(a))
    return b(ann)


def probe_search(func, g, mod):
    """functions with parameters their decorator does not declare (or with no input decorator at all): arguments are built from
    the annotations; the dimension of the undeclared Quantity leaves is the one of the like-named module symbol, else the first
    of the module's own symbol dimensions (in a history-independent order) with which the call returns.
    -> (result, None) | (None, reason)"""
    import inspect
    import itertools
    from sympy.physics.units import Dimension
    from vf import units_ref
    from vf.checks import c04
    inner = g["inner"]
    sig = inspect.signature(inner)
    fixed, open_params = {}, []
    for p, par in sig.parameters.items():
        if p in g["inputs"]:
            fixed[p] = c04.valid_arg(g["inputs"][p], c04.kind_of_param(inner, p), param_mag(func, p))
        elif par.default is not inspect.Parameter.empty:
            continue
        else:
            open_params.append(p)
    cands = {}
    for attr in sorted(vars(mod)):
        d = getattr(vars(mod)[attr], "dimension", None)
        if d is None or attr.startswith("_"):
            continue
        if isinstance(vars(mod)[attr], type) or not isinstance(d, Dimension):
            continue
        try:
            v = units_ref.observed_vector(d)
        except Exception:  # pylint: disable=broad-except
            continue
        if isinstance(v, tuple) and v and not isinstance(v[0], str):
            cands.setdefault(units_ref.vfmt(v), d)
    ordered_c = [cands[k] for k in sorted(cands)] + [None]
    choices = []
    for p in open_params:
        own = getattr(vars(mod).get(p.rstrip("_")), "dimension", None)
        own_ok = isinstance(own, Dimension) and type(own).__name__ != "AnyDimension"
        choices.append([own] if own_ok else ordered_c)
    tried = 0
    for combo in itertools.product(*choices):
        tried += 1
        if tried > 64:
            break
        try:
            kwargs = dict(fixed)
            for p, d in zip(open_params, combo):
                kwargs[p] = build_from_annotation(sig.parameters[p].annotation, d, param_mag(func, p))
        except Unbuildable as x:
            return None, "unbuildable " + str(x)[:40]
        try:
            with harness.Watchdog(60):
                return func(**kwargs), None
        except TimeoutError:
            raise
        except Exception:  # pylint: disable=broad-except
            continue
    return None, "no accepted dimensions"


def result_repr(res):
    import sympy
    from sympy.physics.units import Quantity as SymQuantity
    if isinstance(res, SymQuantity):
        from vf import units_ref
        v = units_ref.observed_vector(res.dimension)  # exponent vector: equivalent spellings of a dimension must not differ
        return ["Q", str(sympy.N(res.scale_factor, 10)), units_ref.vfmt(v) if isinstance(v, tuple) and v and not isinstance(v[0], str) else str(v)]
    if hasattr(res, "components"):
        return ["V"] + [result_repr(c) for c in res.components]
    if isinstance(res, (list, tuple)):
        return ["L"] + [result_repr(c) for c in res]
    try:
        return ["N", str(sympy.N(res, 10))]
    except Exception:  # pylint: disable=broad-except
        return ["O", str(res)[:60]]


def observe_module(name, rec, probe, out):
    import traceback
    try:
        with harness.Watchdog(240):
            mod = catalogue.import_module(name)
    except TimeoutError:
        out[name] = {"import": "watchdog"}
        return
    except BaseException as x:  # pylint: disable=broad-except
        tb = traceback.extract_tb(x.__traceback__)
        where = next((f"{f.filename.split('symplyphysics/')[-1]}:{f.lineno}" for f in reversed(tb) if "symplyphysics/" in f.filename), "?")
        out[name] = {"import": f"{type(x).__name__}@{where}", "message": str(x)[:150]}
        return
    rec_m = {"import": "ok", "eq": {}, "probe": {}}
    for attr, eq in catalogue.published_equations(mod):
        try:
            with harness.Watchdog(30):
                rec_m["eq"][attr] = {"s": hashlib.sha1(canon(eq, None).encode()).hexdigest()[:16], "n": numeric_fp(eq)}
        except TimeoutError:
            rec_m["eq"][attr] = {"s": None, "n": None}
        except Exception as x:  # pylint: disable=broad-except
            rec_m["eq"][attr] = {"s": "ERR:" + type(x).__name__, "n": None}
    if probe:
        for fname, func in catalogue.functions(mod):
            g = catalogue.guard_specs(func)
            if "input" not in g["layers"] and not fname.startswith("calculate_"):
                continue
            try:
                kwargs = probe_args(func, g) if "input" in g["layers"] else None
                if kwargs is None:
                    res, why = probe_search(func, g, mod)
                    if why is not None:
                        rec.add("probe_not_built")
                        continue
                    rec.add("probes_with_undeclared_parameters")
                else:
                    for attempt in range(5):
                        try:
                            with harness.Watchdog(60):
                                res = func(**(kwargs if attempt == 0 else probe_args(func, g, attempt)))
                            break
                        except TimeoutError:
                            raise
                        except Exception:  # pylint: disable=broad-except
                            if attempt == 4:
                                raise
                rec_m["probe"][fname] = result_repr(res)
            except TimeoutError:
                rec_m["probe"][fname] = ["watchdog"]
            except Exception as x:  # pylint: disable=broad-except
                rec_m["probe"][fname] = ["EXC", type(x).__name__]
            # a second probe with special values: first argument infinite, the others negative (where the generated names
            # decide the order of factors, the sign of an infinite product is what changes)
            if kwargs is not None and len(kwargs) >= 2:
                try:
                    import sympy
                    from vf.checks import c04
                    inner = g["inner"]
                    names_ = list(kwargs)
                    sp_kwargs = {}
                    for i_, p_ in enumerate(names_):
                        mag_ = sympy.oo if i_ == 0 else -sympy.Rational(int(param_mag(func, p_) * 10), 10)
                        sp_kwargs[p_] = c04.valid_arg(g["inputs"][p_], c04.kind_of_param(inner, p_), mag_)
                    with harness.Watchdog(20):
                        res2 = func(**sp_kwargs)
                    rec_m["probe"][fname + "[oo,-]"] = result_repr(res2)
                except TimeoutError:
                    rec_m["probe"][fname + "[oo,-]"] = ["watchdog"]
                except Exception as x:  # pylint: disable=broad-except
                    rec_m["probe"][fname + "[oo,-]"] = ["EXC", type(x).__name__]
    out[name] = rec_m


def apply_history(h):
    import symplyphysics  # the package itself first (as every user process does)
    from symplyphysics.core.symbols.id_generator import next_id
    for prefix, n in (h.get("bumps") or {}).items():
        for _ in range(int(n)):
            next_id(prefix)
    n = h.get("creations", 0)
    if n:
        from symplyphysics import Symbol, Function, Quantity, units, QuantityVector, CoordinateSystem
        from symplyphysics.core.experimental.vectors import VectorSymbol
        x = Symbol("x")
        for i in range(n):
            Symbol(f"h{i}", units.length)
            if i % 3 == 0:
                Function(f"hf{i}", [x], units.time)
            if i % 2 == 0:
                Quantity(i * units.meter)
            if i % 10 == 0:
                VectorSymbol(f"hv{i}")
                QuantityVector([Quantity(1 * units.meter)])
            if i % 25 == 0:
                CoordinateSystem(CoordinateSystem.System.CYLINDRICAL)


def ordered(names, order, seed_text=None):
    import random
    names = sorted(names)
    if order == "alpha":
        return names
    if order == "reversed":
        return names[::-1]
    if order.startswith("shuffle:"):
        rr = random.Random(order)
        names = list(names)
        rr.shuffle(names)
        return names
    return names


def work(spec, rec):
    names = catalogue.module_names()
    out = {}
    if spec["kind"] == "full":
        h = spec["history"]
        apply_history(h)
        from symplyphysics.core.symbols import id_generator
        start_ids = dict(getattr(id_generator, "_ids", {}) or {})
        for i, name in enumerate(ordered(names, h["order"])):
            rec.checkpoint(30)
            digest = int(hashlib.sha1(name.encode()).hexdigest(), 16)
            observe_module(name, rec, probe=(digest % spec["probe_every"] == 0), out=out)
        rec.extra["observations"] = {h["name"]: out}
        rec.extra["ids"] = {h["name"]: {"start": start_ids, "end": dict(getattr(id_generator, "_ids", {}) or {})}}
    elif spec["kind"] == "boundary":
        boundary_sweep(spec, rec)
    else:
        # isolated: each module imported alone in its own fresh interpreter
        import subprocess
        import sys
        import os
        import tempfile
        res = {}
        for name in spec["modules"]:
            with tempfile.NamedTemporaryFile("r", suffix=".json", delete=False) as tf:
                path = tf.name
            code = ("import json,sys\nfrom vf.checks import c03\nfrom vf import harness\nout={}\nimport symplyphysics\n"
                    f"c03.observe_module({name!r}, harness.Rec(), True, out)\njson.dump(out, open({path!r},'w'))\n")
            try:
                subprocess.run([sys.executable, "-c", code], env=harness.worker_env(), timeout=300, capture_output=True, check=False)
                with open(path) as f:
                    res.update(json.load(f))
            except Exception as x:  # pylint: disable=broad-except
                res[name] = {"import": "isolated-process-failed:" + type(x).__name__}
            finally:
                try:
                    os.unlink(path)
                except OSError:
                    pass
        rec.extra["isolated"] = res


def advance_counters(id_generator, target):
    """move the SYM/FUN/QTY counters forward to `target` (never backwards). The counters are the documented state of the
    generator (`_ids`); if a refactoring hides it, they are advanced through next_id itself where that is affordable."""
    ids = getattr(id_generator, "_ids", None)
    if isinstance(ids, dict):
        if not all(ids.get(p, 0) < target for p in ("SYM", "FUN", "QTY")):
            return False
        for p in ("SYM", "FUN", "QTY"):
            ids[p] = target
        return True
    if target > 3 * 10**6:
        return False
    for p in ("SYM", "FUN", "QTY"):
        v = id_generator.next_id(p)
        if v > target:
            return False
        while v < target:
            v = id_generator.next_id(p)
    return True


def boundary_chunk(modules, j):
    """one fresh process: the i-th module body is re-executed with SYM/FUN/QTY counters placed so that its (j+1)-th own
    symbol is the last one with i+3 digits (counters only ever move forward, so every name stays unique)"""
    import sys
    import symplyphysics  # noqa
    from symplyphysics.core.symbols import id_generator
    from vf import harness as H
    res = {}
    for i, name in enumerate(modules):
        first = {}
        observe_module(name, H.Rec(), True, first)
        base = first.get(name, {"import": "?"})
        entry = {"first": base, "re": []}
        if base.get("import") == "ok":
            target = 10 ** (i + 3) - 2 - j
            if advance_counters(id_generator, target):
                mod = sys.modules.pop(name, None)
                out = {}
                observe_module(name, H.Rec(), True, out)
                o = out.get(name, {"import": "?"})
                o["counter"] = target
                entry["re"].append(o)
                if o.get("import") != "ok" and mod is not None:
                    sys.modules[name] = mod
        res[name] = entry
    return res


def boundary_sweep(spec, rec):
    import subprocess
    import sys
    import os
    import tempfile
    res = {}
    mods = spec["modules"]
    for j in spec.get("offsets", [0]):
        for c in range(0, len(mods), 7):
            chunk = mods[c:c + 7]
            rec.checkpoint(30)
            with tempfile.NamedTemporaryFile("r", suffix=".json", delete=False) as tf:
                path = tf.name
            code = ("import json\nfrom vf.checks import c03\n"
                    f"json.dump(c03.boundary_chunk({chunk!r}, {j}), open({path!r}, 'w'))\n")
            try:
                subprocess.run([sys.executable, "-c", code], env=harness.worker_env(), timeout=900, capture_output=True, check=False)
                with open(path) as f:
                    part = json.load(f)
                for name, entry in part.items():
                    res.setdefault(name, {"first": entry["first"], "re": []})["re"].extend(entry["re"])
            except Exception as x:  # pylint: disable=broad-except
                rec.inconc("boundary chunk process failed: " + type(x).__name__)
            finally:
                try:
                    os.unlink(path)
                except OSError:
                    pass
    rec.extra["boundary"] = res


def close_num(a, b):
    if a is None or b is None:
        return None
    try:
        for x, y in zip(a, b):
            xv, yv = mpmath.mpmathify(x), mpmath.mpmathify(y)
            if abs(xv - yv) > mpmath.mpf("1e-8") * max(abs(xv), abs(yv), mpmath.mpf("1e-12")):
                return False
        return True
    except Exception:  # pylint: disable=broad-except
        return None


def same_probe(a, b):
    if a == b:
        return True
    if not a or not b or a[0] != b[0] or len(a) != len(b):
        return False
    if a[0] in ("Q", "N"):
        try:
            import sympy
            x, y = complex(sympy.sympify(a[1])), complex(sympy.sympify(b[1]))
            return abs(x - y) <= 1e-8 * max(abs(x), abs(y), 1e-300) and a[2:] == b[2:]
        except Exception:  # pylint: disable=broad-except
            return False
    if a[0] in ("V", "L"):
        return all(same_probe(x, y) for x, y in zip(a[1:], b[1:]))
    return False


def finalize(merged, tier, seed, results):
    obs = merged["extra"].pop("observations", {})
    iso = merged["extra"].pop("isolated", {})
    ids = merged["extra"].pop("ids", {})
    canon_obs = obs.get("canonical")
    viol = []
    samples = []
    stats = {"histories": len(obs), "modules_compared": 0, "equations_compared": 0, "probes_compared": 0, "isolated": len(iso),
             "structurally_different_but_numerically_equal": 0}
    hashes = set()
    inconc = merged["inconclusive"]

    def compare(hname, name, m, ref):
        stats["modules_compared"] += 1
        merged["evaluations"] += 1
        if hname != "canonical":
            hashes.add(harness.h((hname, name)))
        short = name.split("symplyphysics.")[-1]
        if m["import"] != "ok":
            if m["import"] == "watchdog":
                inconc["watchdog during import"] = inconc.get("watchdog during import", 0) + 1
                return
            viol.append({"key": f"import-fails:{short}:{m['import']}", "what": f"{short} fails to import under history {hname}: {m['import']} {m.get('message', '')}",
                         "case": {"module": name, "history": hname}})
            return
        if ref is None or ref["import"] != "ok":
            return
        for attr, fp in m["eq"].items():
            rfp = ref["eq"].get(attr)
            if rfp is None:
                viol.append({"key": f"equation-set-differs:{short}.{attr}", "what": f"{short}.{attr} published under {hname} but not under canonical", "case": {"module": name, "history": hname}})
                continue
            stats["equations_compared"] += 1
            if fp["s"] == rfp["s"] and fp["s"] is not None:
                continue
            cn = close_num(fp["n"], rfp["n"])
            if cn is True:
                stats["structurally_different_but_numerically_equal"] += 1
            elif cn is False:
                viol.append({"key": f"equation-meaning-differs:{short}.{attr}", "what": f"{short}.{attr} evaluates to {fp['n']} under {hname} but {rfp['n']} under canonical",
                             "case": {"module": name, "history": hname}})
            else:
                inconc["structure differs and numeric fingerprint not computable"] = inconc.get("structure differs and numeric fingerprint not computable", 0) + 1
        for fname, pr in m["probe"].items():
            rpr = ref["probe"].get(fname)
            if rpr is None:
                continue
            stats["probes_compared"] += 1
            if pr and pr[0] == "watchdog" or rpr and rpr[0] == "watchdog":
                continue
            if not same_probe(pr, rpr):
                viol.append({"key": f"probe-differs:{short}.{fname}", "what": f"{short}.{fname} returns {pr} under {hname} but {rpr} under canonical", "case": {"module": name, "history": hname}})

    for hname, o in obs.items():
        for name, m in o.items():
            compare(hname, name, m, canon_obs.get(name) if canon_obs else None)
        if len(samples) < 4:
            samples.append({"history": hname, "ids": ids.get(hname), "modules": len(o), "import_failures": [n for n, m in o.items() if m["import"] != "ok"][:5]})
    for name, m in iso.items():
        compare("isolated", name, m, canon_obs.get(name) if canon_obs else None)
    bnd = merged["extra"].pop("boundary", {})
    stats["boundary_reimports"] = 0
    for name, entry in bnd.items():
        ref = entry["first"]
        for o in entry["re"]:
            stats["boundary_reimports"] += 1
            compare(f"boundary@{o.get('counter')}", name, o, ref)
    if canon_obs is None:
        inconc["canonical history produced no result"] = 1
    merged["violations"].extend(viol)
    merged["nviol"] += len(viol)
    merged["hashes"] = sorted(set(merged["hashes"]) | hashes)
    merged["samples"] = samples
    for k, v in stats.items():
        merged["reach"][k] = v
    return {"histories": sorted(obs), "id_counters": ids}


def replay(case, rec):
    h = {"name": "replay", "order": "alpha", "bumps": {}, "creations": 0}
    rec.note("replay: import the module under the recorded history name; rerun the tier with the same VERIF_SEED: " + str(case))
