"""C01 - every published law equation is dimensionally homogeneous.
Workload: the real import of every catalogue module of the working tree.  Monitor: every public Equality / list of them
after import.  Oracle 1: reference dimension algebra (vf/refdim.py, strict function arguments); oracle 2 (independent):
unit-rescaling metamorphic check on numerically evaluable equations."""
from __future__ import annotations

import mpmath

from vf import catalogue, harness, numeval, refdim, units_ref

RULE = ("exhaustive over the catalogue: every module under laws/, definitions/, conditions/ of the working tree is imported "
        "(sharded over 16 processes) and every public Relational attribute (or element of a public list/tuple of them) is one "
        "case. Oracle 1 types the equation with the reference dimension algebra (declared dimensions of symbols/functions/"
        "constants; angle erased; zero and wildcard match anything; exponents and arguments of exp/trig/hyperbolic must be "
        "dimensionless). Oracle 2 rescales the 7 base units by random factors and checks that every Add/Relational node of a "
        "numerically evaluable equation rescales uniformly. non-trivial = the equation contains at least one dimensional "
        "leaf; distinct = (module, attribute).")
ASSUMPTIONS = ["vf/refdim.py node rules = the property statement", "SymPy dimsys_SI expands declared dimensions",
               "a module that does not import is reported by C03 and counted here as not observed"]
MIN_REACH = {"quick": {"equations_typed": 600, "modules_imported": 650, "rescaling_checked": 300},
             "thorough": {"equations_typed": 600, "modules_imported": 650, "rescaling_checked": 300}}
SHARD_TIMEOUT = {"quick": 600, "thorough": 1200}


def plan(tier, seed):
    names = catalogue.module_names()
    k = 16
    return [{"_label": f"mods{i}", "modules": names[i::k], "seed": seed, "draws": 2 if tier == "quick" else 5} for i in range(k)]


def has_dimensional_leaf(e):
    import sympy
    for a in sympy.preorder_traversal(e):
        d = getattr(a, "dimension", None)
        if d is None and hasattr(a, "func"):
            d = getattr(a.func, "dimension", None)
        if d is not None:
            try:
                if refdim.deps(d) not in ({}, refdim.ANY):
                    return True
            except Exception:  # pylint: disable=broad-except
                pass
    return False


def rescale_check(e, r, draws):
    """metamorphic oracle: returns None (not evaluable), True (uniform), or a description of the non-uniform node"""
    import sympy
    from sympy.core.function import AppliedUndef
    from sympy.physics.units import Quantity as SymQuantity
    if e.has(sympy.Derivative, sympy.Integral, sympy.Sum, sympy.MatrixBase, sympy.Piecewise) or e.atoms(AppliedUndef) or e.atoms(sympy.Indexed):
        return None
    leaves = [a for a in e.atoms(sympy.Symbol) if not isinstance(a, SymQuantity)]
    qs = list(e.atoms(SymQuantity))
    vecs = {}
    for a in leaves + qs:
        d = getattr(a, "dimension", None)
        if d is None:
            return None
        if type(a).__mro__[1].__name__ == "Symbolic":
            return None
        v = refdim.deps(d)
        if v == refdim.ANY:
            return None
        vecs[a] = v
    for _ in range(draws):
        lam = {b: mpmath.mpf(r.randint(1500, 9000)) / 1000 for b in units_ref.BASES}
        env1, env2 = {}, {}
        for a, v in vecs.items():
            val = mpmath.mpf(r.randint(200, 3000)) / 1000
            if isinstance(a, SymQuantity):
                sf = a.scale_factor
                try:
                    val = mpmath.mpf(sympy.N(sf, 30)._mpf_) if sympy.N(sf).is_real else None
                except Exception:  # pylint: disable=broad-except
                    val = None
                if val is None:
                    return None
            f = mpmath.mpf(1)
            for b, x in v.items():
                if not sympy.sympify(x).is_number:
                    return None
                f = f * lam.get(b, 1) ** mpmath.mpf(sympy.N(x, 20)._mpf_ if not sympy.sympify(x).is_Rational else mpmath.mpf(int(sympy.sympify(x).p)) / int(sympy.sympify(x).q))
            env1[a] = val
            env2[a] = val * f
        ev1 = numeval.Evaluator(env1, quantity="env")
        ev2 = numeval.Evaluator(env2, quantity="env")
        nodes = [n for n in sympy.preorder_traversal(e) if isinstance(n, (sympy.Add, sympy.core.relational.Relational))]
        for n in nodes:
            ratios = []
            try:
                for t in n.args:
                    a1, a2 = ev1.ev(t), ev2.ev(t)
                    if a1 == 0 or not mpmath.isfinite(a1) or not mpmath.isfinite(a2):
                        continue
                    ratios.append(a2 / a1)
            except numeval.NotEvaluable:
                return None
            if len(ratios) >= 2:
                r0 = ratios[0]
                for x in ratios[1:]:
                    if abs(x - r0) > mpmath.mpf("1e-9") * max(abs(x), abs(r0)):
                        return f"terms of {str(n)[:120]} rescale by {mpmath.nstr(r0, 8)} vs {mpmath.nstr(x, 8)}"
    return True


def work(spec, rec):
    import symplyphysics  # noqa pylint: disable=unused-import
    refdim.configure(value_aware=False, strict_function_args=True)
    r = harness.rng_for("C01", spec["seed"], spec["_label"])
    for name in spec["modules"]:
        rec.checkpoint()
        short = name.split("symplyphysics.")[-1]
        try:
            with harness.Watchdog(120):
                mod = catalogue.import_module(name)
        except Exception as x:  # pylint: disable=broad-except
            rec.inconc("module does not import (reported by C03)", {"module": name, "err": type(x).__name__})
            continue
        rec.hit("modules_imported")
        for attr, eq in catalogue.published_equations(mod):
            stats = {}
            case = {"module": name, "attribute": attr, "equation": str(eq)[:300]}
            verdict1 = None
            try:
                with harness.Watchdog(60):
                    refdim.refdim(eq, stats)
                verdict1 = "homogeneous"
            except refdim.Inhomogeneous as x:
                verdict1 = ("inhomogeneous", x.kind, x.detail, str(x.node)[:200])
            except refdim.Unsupported as x:
                rec.inconc("reference cannot type node: " + str(x)[:50], case)
            except TimeoutError:
                rec.inconc("watchdog while typing", case)
            except Exception as x:  # pylint: disable=broad-except
                rec.inconc("reference crashed: " + type(x).__name__, dict(case, err=str(x)[:200]))
            rec.case((short, attr), nontrivial=has_dimensional_leaf(eq))
            # wrappers (Average, FiniteDifference, differentials) store the dimension inferred at construction time: it must be
            # the dimension of their argument (recomputed by the reference), otherwise the typing above used a stale value
            try:
                import sympy as _sp
                for a in eq.atoms(_sp.Symbol) if hasattr(eq, "atoms") else []:
                    if type(a).__mro__[1].__name__ == "Symbolic":
                        rec.hit("wrappers_checked")
                        want = refdim.refdim(a.factor)
                        got = refdim.deps(a.dimension)
                        if not refdim.deq(want, got):
                            rec.violation(f"wrapper-dimension:{short}.{attr}", f"{short}.{attr}: wrapper {a} stores dimension {a.dimension} but its argument has {refdim.fmt(want)}", case)
            except (refdim.Inhomogeneous, refdim.Unsupported):
                pass
            if stats.get("undeclared"):
                rec.add("equations_with_undeclared_plain_symbols")
            verdict2 = None
            try:
                with harness.Watchdog(60):
                    verdict2 = rescale_check(eq, r, spec["draws"])
            except TimeoutError:
                verdict2 = None
            except Exception as x:  # pylint: disable=broad-except
                rec.note(f"rescaling oracle crashed on {short}.{attr}: {type(x).__name__} {str(x)[:80]}")
            if verdict2 is not None:
                rec.hit("rescaling_checked")
            if verdict1 == "homogeneous":
                rec.hit("equations_typed")
                if verdict2 not in (None, True):
                    rec.inconc("oracles disagree: typed homogeneous but rescaling is not uniform (defect of the machinery)", dict(case, rescaling=verdict2))
                elif len(rec.samples) < 3:
                    rec.sample(dict(case, verdict="homogeneous", rescaling=verdict2))
            elif verdict1 is not None:
                rec.hit("equations_typed")
                if verdict2 is True:
                    rec.inconc("oracles disagree: typed inhomogeneous but rescaling is uniform (defect of the machinery)", dict(case, typing=verdict1))
                else:
                    _, kind, detail, node = verdict1
                    rec.violation(f"inhomogeneous:{short}.{attr}", f"{short}.{attr}: {kind}: {detail} in {node}" + (f"; rescaling: {verdict2}" if verdict2 else ""), case)


def replay(case, rec):
    work({"modules": [case["module"]], "seed": 0, "_label": "replay", "draws": 5}, rec)
