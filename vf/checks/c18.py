"""C18 - LaTeX rendering of formulas is well-formed and meaning-preserving.
Workload: latex_str on generated canonical trees and on every catalogue equation in its documented source form.
Monitor: the rendered string.  Oracle: brace / \\left-\\right balance automaton on every output + own LaTeX-math reader
(ambiguity-tolerant extent of prefix operators) -> numeric equality with the original."""
from __future__ import annotations

from vf.checks import c17

RULE = ("same inputs as C17 (generated canonical trees + every documented catalogue member in source form). Every rendering "
        "goes through a stack automaton (balanced {} and matched \\left/\\right) and an own LaTeX-math reader (fractions, "
        "\\sqrt[n]{}, ^{}, juxtaposition and \\cdot as product, unary minus, \\left( \\right), \\left| \\right|, \\sin^{2}{..}, "
        "\\log_{b}, \\exp, \\operatorname, \\frac{d}{dx} / \\partial applied to the next factor or to the rest of the term, "
        "\\sum_i, \\int\\limits) with the LaTeX display names of the atoms as tokens; where mathematical practice admits two "
        "readings every combination is evaluated and the rendering is flagged only if none equals the original at 3 random "
        "points (1e-10 relative). non-trivial / distinct as in C17.")
ASSUMPTIONS = ["vf/parse_latex.py reading rules (documented in its docstring)",
               "constructs the reader does not cover (Bessel/Hermite, matrices beyond entrywise, nabla^2) are inconclusive"]
N = c17.N
MIN_REACH = {"quick": {"generated_decided": 3000, "catalogue_decided": 500, "modules_rendered": 500, "product_chains_decided": 300},
             "thorough": {"generated_decided": 60000, "catalogue_decided": 500}}
SHARD_TIMEOUT = c17.SHARD_TIMEOUT
plan = c17.plan


def work(spec, rec):
    c17.work_kind(spec, rec, "latex")


def replay(case, rec):
    if "module" in case:
        c17.work_kind({"seed": 0, "shard": 0, "trees": 0, "depth": 2, "modules": [case["module"]]}, rec, "latex")
    else:
        rec.note("generated trees are regenerated from (seed, shard); rerun with the same VERIF_SEED: " + str(case)[:300])
