"""C17 - code rendering of formulas is meaning-preserving.
Workload: code_str on generated canonical trees and on every catalogue equation in its documented source form.
Monitor: the rendered string.  Oracle: own precedence parser -> numeric equality with the original (3 random points)."""
from __future__ import annotations

from vf import catalogue, harness, printsem

KIND = "code"
RULE = ("(a) seeded canonical (auto-evaluated) trees over library symbols (ints +-, rationals, floats, negative factors, nested "
        "quotients, sums in denominators, rational/negative/symbolic exponents, roots, products of sums, elementary functions, "
        "Abs, log with base), depth<=4 quick / <=6 thorough; (b) every documented member of every catalogue module in its "
        "documented source form (obtained exactly as the documentation does: module source re-executed with evaluation disabled "
        "around documented members). The rendering is parsed with an own name-aware precedence parser (^ right-associative and "
        "tighter than unary minus, * / left-associative, call syntax, sqrt, lists) and evaluated at 3 random points with the "
        "same mpmath semantics as the original; symbols must appear under their display names. non-trivial = rendering contains "
        "an operator; distinct = distinct rendering.")
RULE = RULE + " Also (a') source-form-style trees (generator under evaluate(False), factor_terms/together results), (a'') product chains with several numeric literals; library functions (some named like SymPy special functions) and irrational constants among the leaves; every symbol and function the value depends on must occur in the rendering under its display name."
ASSUMPTIONS = ["vf/parse_code.py grammar = 'ordinary arithmetic precedence' of the statement",
               "undefined functions/derivatives/integrals/sums are compared through identical opaque smooth stand-ins on both sides",
               "tolerance 1e-10 relative (floats are printed with 15 digits)"]
N = {"quick": dict(trees=4000, depth=4), "thorough": dict(trees=80000, depth=6)}
MIN_REACH = {"quick": {"generated_decided": 3000, "catalogue_decided": 500, "modules_rendered": 500, "product_chains_decided": 300},
             "thorough": {"generated_decided": 60000, "catalogue_decided": 500}}
SHARD_TIMEOUT = {"quick": 900, "thorough": 3300}


def render_compare(e, r):
    return printsem.compare(e, r) if KIND == "code" else printsem.compare_latex(e, r)


def plan(tier, seed):
    n = N[tier]
    names = catalogue.module_names()
    k = 16
    return [{"_label": f"shard{i}", "seed": seed, "shard": i, "trees": n["trees"] // k, "depth": n["depth"], "modules": names[i::k]} for i in range(k)]


def classify(detail, rendering):
    d = detail.lower()
    if "unbalanced" in d:
        return "unbalanced"
    if "eq shape" in d:
        return "equation-shape"
    return "value"


def work_kind(spec, rec, kind):
    global KIND  # pylint: disable=global-statement
    KIND = kind
    import sympy
    import symplyphysics  # noqa pylint: disable=unused-import
    r = harness.rng_for("C17" if kind == "code" else "C18", spec["seed"], spec["shard"])
    gen = printsem.make_generator(r)
    seen = set()
    for i in range(spec["trees"]):
        rec.checkpoint()
        try:
            with harness.Watchdog(20):
                e = gen(r.randint(2, spec["depth"]))
                if e.is_Number or e in (sympy.S.NaN, sympy.S.ComplexInfinity) or e.has(sympy.zoo, sympy.nan):
                    rec.add("trivial_trees")
                    continue
                res = render_compare(e, r)
        except TimeoutError:
            rec.inconc("watchdog on a generated tree")
            continue
        except Exception as x:  # pylint: disable=broad-except
            rec.add("generator_exceptions")
            continue
        verdict, detail, rendering = res
        rec.case(rendering, nontrivial=any(c in rendering for c in "+-*/^(\\"))
        if verdict == "ok":
            rec.hit("generated_decided")
            if len(rec.samples) < 3:
                rec.sample({"expr": sympy.srepr(e)[:200], "rendering": rendering[:200]})
        elif verdict == "viol":
            rec.hit("generated_decided")
            rec.violation(f"generated:{classify(detail, rendering)}", f"{kind} rendering {rendering[:200]!r} of {sympy.srepr(e)[:200]}: {detail[:200]}",
                          {"srepr": sympy.srepr(e)[:1500], "rendering": rendering[:400], "detail": detail[:300]})
        elif detail.startswith("parse") and all(
                isinstance(n_, (sympy.Add, sympy.Mul, sympy.Pow, sympy.Symbol, sympy.Number, sympy.NumberSymbol, sympy.core.function.AppliedUndef)) or n_ is sympy.I
                or type(n_).__name__ in ("sin", "cos", "exp", "log", "Abs", "tan", "sinh", "atan", "Mod") for n_ in sympy.preorder_traversal(e)):
            # (deep trees make SymPy introduce re/im/atan2/arg itself: those stay inconclusive)
            # a canonical tree over symbols, numbers, elementary and library functions only uses constructs the own
            # reader covers: a rendering it cannot read is ill-formed (e.g. an exponent that lost its braces)
            rec.hit("generated_decided")
            rec.violation("generated:unreadable", f"{kind} rendering {rendering[:200]!r} of {sympy.srepr(e)[:200]} cannot be read as mathematics: {detail[:160]}",
                          {"srepr": sympy.srepr(e)[:1500], "rendering": rendering[:400], "detail": detail[:300]})
        else:
            rec.inconc("generated: " + detail.split(":")[0][:50])
    # (a') source-form style: the same generator run with evaluation disabled (the shape in which law authors write their
    # equations and in which the documentation prints them), plus results of SymPy's own restructuring functions
    for i in range(spec["trees"] // 4):
        rec.checkpoint()
        try:
            with harness.Watchdog(20):
                if i % 5 == 4:
                    base = gen(r.randint(2, 3))
                    e = r.choice([sympy.factor_terms, sympy.together, lambda x: sympy.factor_terms(-x)])(base)
                else:
                    with sympy.evaluate(False):
                        e = gen(r.randint(2, min(4, spec["depth"])))
                if e.is_Number or e.has(sympy.zoo, sympy.nan, sympy.oo):
                    continue
                # reciprocals of reciprocals (1 / (1 / sqrt(b)), x / (1 / (1/7))) do not occur in hand-written laws and are
                # left out: the statement covers canonical trees and the catalogue, this workload only imitates the latter
                if any(isinstance(n, sympy.Pow) and n.exp.is_number and n.exp.is_negative and
                       (isinstance(n.base, sympy.Pow) and n.base.exp.is_number and n.base.exp.is_negative or (n.base.is_Rational and not n.base.is_Integer))
                       for n in sympy.preorder_traversal(e)):
                    rec.add("source_form_double_reciprocal_skipped")
                    continue
                # likewise unevaluated arithmetic between literals (x / 1, (-1) * (-1), 2 * 3, (-1)**(-2)) - nobody writes it in a law
                if any((isinstance(n, sympy.Pow) and (n.base == 1 or (n.base.is_number and n.base.is_negative and n.exp.is_number))) or
                       (isinstance(n, (sympy.Mul, sympy.Add)) and sum(1 for a in n.args if a.is_number) >= 2) or
                       (isinstance(n, sympy.Mul) and any(isinstance(a, sympy.Pow) and a.exp.is_number and a.exp.is_negative and a.base in n.args for a in n.args))
                       for n in sympy.preorder_traversal(e)):
                    rec.add("source_form_literal_arithmetic_skipped")
                    continue
                verdict, detail, rendering = render_compare(e, r)
        except TimeoutError:
            rec.inconc("watchdog on a source-form tree")
            continue
        except Exception:  # pylint: disable=broad-except
            rec.add("generator_exceptions")
            continue
        rec.case(("src", rendering), nontrivial=True)
        if verdict == "ok":
            rec.hit("source_form_style_decided")
        elif verdict == "viol":
            rec.hit("source_form_style_decided")
            rec.violation(f"source-form-style:{classify(detail, rendering)}", f"{kind} rendering {rendering[:200]!r} of the unevaluated {sympy.srepr(e)[:200]}: {detail[:200]}",
                          {"srepr": sympy.srepr(e)[:1500], "rendering": rendering[:400], "detail": detail[:300]})
        else:
            rec.inconc("source-form style: " + detail.split(":")[0][:50])
    # (a'') hand-written product chains: left-nested unevaluated products mixing symbols, powers and several positive numeric
    # literals (`a * 2 * 3`, `x / (4 * a * 2.5)`, `2 * 10**3 * b`) - the number-separator logic of the printers
    from sympy import pi, sqrt, sin
    syms = [symplyphysics.Symbol(n) for n in ["a", "b", "x_1", "T_lab"]]

    def chain():
        fs = []
        for _ in range(r.randint(2, 5)):
            k = r.random()
            if k < 0.4:
                fs.append(r.choice(syms))
            elif k < 0.52:
                fs.append(sympy.Integer(r.choice([2, 3, 4, 5, 10, 12, 100])))
            elif k < 0.6:
                # negative factors: a negative literal, a negated symbol, a negated quotient (sign extraction of the printers)
                s_ = r.choice(syms)
                fs.append(r.choice([sympy.Integer(-2), sympy.Integer(-1), sympy.Mul(-1, s_, evaluate=False), sympy.Rational(-3, 2),
                                    sympy.Mul(-1, s_, sympy.Pow(r.choice(syms), -1, evaluate=False), evaluate=False)]))
            elif k < 0.7:
                fs.append(sympy.Float(r.choice([0.5, 2.405, 1e-3, 3.5e4])))
            elif k < 0.78:
                fs.append(sympy.Rational(r.choice([1, 3, 5]), r.choice([2, 4, 7])))
            elif k < 0.88:
                fs.append(sympy.Pow(r.choice(syms + [sympy.Integer(10), sympy.Integer(2)]), r.choice([2, 3, r.choice(syms)]), evaluate=False))
            elif k < 0.91:
                fs.append(pi)
            elif k < 0.94:
                fs.append(sympy.Mod(r.choice(syms), r.choice(syms + [sympy.Integer(3)])))   # an infix factor of low precedence in LaTeX
            else:
                fs.append(r.choice([sqrt, sin])(r.choice(syms)))
        if all(f.is_number for f in fs):
            fs[r.randrange(len(fs))] = r.choice(syms)
        out = fs[0]
        for f in fs[1:]:
            out = sympy.Mul(out, f, evaluate=False)
        return out

    for i in range(spec["trees"] // 8):
        rec.checkpoint()
        try:
            with harness.Watchdog(20):
                k = r.random()
                c = chain()
                if k < 0.4:
                    e = c
                elif k < 0.6:
                    e = sympy.Mul(r.choice(syms), sympy.Pow(c, -1, evaluate=False), evaluate=False)
                elif k < 0.75:
                    e = sympy.Mul(c, sympy.Pow(chain(), -1, evaluate=False), evaluate=False)
                elif k < 0.9:
                    e = sympy.Add(c, chain(), evaluate=False)
                else:
                    e = sympy.Add(r.choice(syms), sympy.Mul(-1, c, evaluate=False), evaluate=False)
                verdict, detail, rendering = render_compare(e, r)
        except TimeoutError:
            rec.inconc("watchdog on a product chain")
            continue
        except Exception:  # pylint: disable=broad-except
            rec.add("generator_exceptions")
            continue
        rec.case(("chain", rendering), nontrivial=True)
        if verdict == "ok":
            rec.hit("product_chains_decided")
        elif verdict == "viol":
            rec.hit("product_chains_decided")
            rec.violation(f"product-chain:{classify(detail, rendering)}", f"{kind} rendering {rendering[:200]!r} of the unevaluated {sympy.srepr(e)[:200]}: {detail[:200]}",
                          {"srepr": sympy.srepr(e)[:1500], "rendering": rendering[:400], "detail": detail[:300]})
        else:
            rec.inconc("product chain: " + detail.split(":")[0][:50])
    # (a3) a modulus whose second operand is itself a modulus (one fixed family of canonical trees, reported under its own key)
    if spec["shard"] == 0:
        for e in (sympy.Mod(syms[0], sympy.Mod(syms[1], syms[2])), sympy.Mod(syms[0] + 1, sympy.Mod(syms[1], 3)) * syms[2], 2 - sympy.Mod(syms[3], sympy.Mod(syms[0] * syms[1], syms[2]))):
            try:
                with harness.Watchdog(20):
                    verdict, detail, rendering = render_compare(e, r)
            except Exception:  # pylint: disable=broad-except
                continue
            rec.case(("nested-mod", rendering), nontrivial=True)
            rec.hit("nested_mod_probes")
            if verdict == "viol":
                rec.violation("nested-mod-second-operand:value", f"{kind} rendering {rendering[:200]!r} of {sympy.srepr(e)[:200]}: {detail[:200]}",
                              {"srepr": sympy.srepr(e)[:600], "rendering": rendering[:300], "detail": detail[:200]})
    # (b) the catalogue in documented source form
    for name in spec["modules"]:
        rec.checkpoint()
        short = name.split("symplyphysics.")[-1]
        try:
            with harness.Watchdog(180):
                members = printsem.documented_members(name, harness.REPO)
        except TimeoutError:
            rec.inconc("watchdog re-executing a module source", {"module": name})
            continue
        except Exception as x:  # pylint: disable=broad-except
            rec.inconc("documented source form not obtainable: " + type(x).__name__, {"module": name, "err": str(x)[:120]})
            continue
        rec.hit("modules_rendered")
        for m in members:
            values = m.value if isinstance(m.value, (list, tuple)) else [m.value]
            for j, v in enumerate(values):
                label = f"{short}.{m.name}" + (f"[{j}]" if len(values) > 1 else "")
                try:
                    with harness.Watchdog(60):
                        verdict, detail, rendering = render_compare(v, r)
                except TimeoutError:
                    rec.inconc("watchdog on a catalogue member", {"member": label})
                    continue
                except Exception as x:  # pylint: disable=broad-except
                    rec.inconc("comparison crashed: " + type(x).__name__, {"member": label, "err": str(x)[:150]})
                    continue
                rec.case(("member", label), nontrivial=True)
                if verdict == "ok":
                    rec.hit("catalogue_decided")
                elif verdict == "viol":
                    rec.hit("catalogue_decided")
                    rec.violation(f"catalogue:{label}:{classify(detail, rendering)}", f"{kind} rendering of {label}: {rendering[:200]!r}: {detail[:200]}",
                                  {"module": name, "member": m.name, "rendering": rendering[:400], "detail": detail[:300]})
                else:
                    rec.inconc("catalogue: " + detail.split(":")[0].split("'")[0][:50], {"member": label, "detail": detail[:150], "rendering": rendering[:150]})


def work(spec, rec):
    work_kind(spec, rec, "code")


def replay(case, rec):
    import random
    if "module" in case:
        work_kind({"seed": 0, "shard": 0, "trees": 0, "depth": 2, "modules": [case["module"]]}, rec, "code")
    else:
        from sympy import srepr  # noqa
        import sympy
        import symplyphysics  # noqa
        rec.note("generated trees are regenerated from (seed, shard); rerun with the same VERIF_SEED: " + str(case)[:300])
