"""C04 - the dimension gate admits exactly dimensionally equivalent arguments and results.
(a) core: functions decorated *by the harness* with the real validate_input / validate_output / validate_output_same for
    generated declarations, called with generated actual arguments in all call styles and several magnitudes;
(b) catalogue: every decorated function of the working tree - guard keys must name parameters; a wrong-dimension
    quantity / bare number for each guarded parameter must be refused with an error naming the parameter.
Monitor: outcome class (return / TypeError / UnitsError / other) and message of each guarded call.
Oracle: reference gate predicate on exponent vectors."""
from __future__ import annotations

import inspect
from fractions import Fraction as Fr

from vf import catalogue, harness, units_ref

RULE = ("(a) core: random declared exponent vectors (rational exponents in [-3,3] over the 7 SI bases; as Dimension, Symbol, "
        "Function, IndexedSymbol, tuple specs) x actual arguments of class equal / equivalent-by-derived-unit / angle factor / "
        "off-by-one exponent / dimensionless quantity / bare number / zero / oo / nan, as scalar, list (one bad element at a "
        "random position), QuantityVector (incl. all-zero and mixed-dimension construction); every tuple is replayed "
        "positional/keyword and at 3 magnitudes with 2 prefixes and all verdicts must coincide with the reference gate; same for "
        "results (validate_output, validate_output_same). (b) catalogue: exhaustive over decorated functions x guarded parameters "
        "of the working tree. non-trivial = actual differs from the canonical spelling of the declaration; distinct = distinct case.")
RULE = RULE + " Also: quantity vectors in cylindrical / spherical systems with zero components in every position; quantities and declarations that carry the non-SI base dimension 'information' (bit, byte, kibibyte)."
ASSUMPTIONS = ["reference gate: accept iff exponent vectors equal after erasing angle, or value is 0/+-oo/nan, or declaration is "
               "the wildcard; TypeError iff actual dimensionless and declared not; else UnitsError",
               "SymPy dimsys_SI expansion of dimensions; own unit table for derived spellings"]
N = {"quick": 3200, "thorough": 32000}
MIN_REACH = {"quick": {"core_calls": 12000, "accept": 1200, "TypeError": 1500, "UnitsError": 3000, "sequence": 500, "vector": 200, "vector_explicit_dimension_mixed": 40,
                       "output": 500, "output_same": 150, "catalogue_functions": 600, "catalogue_params": 1500, "curvilinear_vector_calls": 600, "foreign_dimension_calls": 300},
             "thorough": {"core_calls": 100000, "catalogue_functions": 600, "catalogue_params": 1500}}
SHARD_TIMEOUT = {"quick": 600, "thorough": 3000}

DERIVED = [  # (unit expression builders with the same exponent vector) typed by hand
    ("joule", ["newton*meter", "watt*second", "pascal*meter**3", "volt*coulomb", "kilogram*meter**2/second**2", "electronvolt"]),
    ("hertz", ["1/second", "radian/second", "becquerel", "degree/minute"]),
    ("newton", ["kilogram*meter/second**2", "joule/meter", "pascal*meter**2"]),
    ("watt", ["joule/second", "volt*ampere", "newton*meter/second"]),
    ("pascal", ["newton/meter**2", "joule/meter**3", "bar", "atmosphere"]),
    ("volt", ["watt/ampere", "joule/coulomb", "ohm*ampere"]),
    ("meter", ["meter*radian", "kilometer", "inch", "meter*degree"]),
    ("second", ["minute", "hour", "1/hertz"]),
    ("coulomb", ["ampere*second", "farad*volt"]),
    ("tesla", ["weber/meter**2", "volt*second/meter**2"]),
]


def plan(tier, seed):
    return _plan_core(tier, seed) + [{"_label": "suite", "kind": "suite", "tier": tier, "_timeout": 2400}]


def _plan_core(tier, seed):
    n = N[tier]
    shards = [{"_label": f"core{i}", "kind": "core", "seed": seed, "shard": i, "cases": n // 12} for i in range(12)]
    names = catalogue.module_names()
    k = 4
    for i in range(k):
        shards.append({"_label": f"cat{i}", "kind": "catalogue", "seed": seed, "modules": names[i::k]})
    return shards


# ---------- reference ----------
def ref_gate(actual, declared):
    """actual: ('any',) | ('vec', vector) ; declared: 'ANY' | vector.  -> 'ok' | 'TypeError' | 'UnitsError'"""
    if declared == "ANY" or actual[0] == "any":
        return "ok"
    v = actual[1]
    if v == declared:
        return "ok"
    if v == units_ref.ZERO:
        return "TypeError"
    return "UnitsError"


def ref_combine(verdicts):
    """first failing element decides (the gate checks elements in order)"""
    for i, v in enumerate(verdicts):
        if v != "ok":
            return v, i
    return "ok", None


def expr_from_text(text):
    from sympy.physics import units as U
    import sympy
    ns = {n: getattr(U, n) for n in units_ref.UNITS if hasattr(U, n)}
    return sympy.sympify(eval(text, {"__builtins__": {}}, ns))  # pylint: disable=eval-used


def vec_of_text(text):
    class V:
        def __init__(self, v):
            self.v = v

        def __mul__(self, o):
            return V(units_ref.vmul(self.v, o.v if isinstance(o, V) else units_ref.ZERO))
        __rmul__ = __mul__

        def __truediv__(self, o):
            return V(units_ref.vmul(self.v, units_ref.vpow(o.v, -1)))

        def __rtruediv__(self, o):
            return V(units_ref.vpow(self.v, -1))

        def __pow__(self, n):
            return V(units_ref.vpow(self.v, Fr(n)))
    ns = {n: V(units_ref.UNITS[n][1]) for n in units_ref.UNITS}
    r = eval(text, {"__builtins__": {}}, ns)  # pylint: disable=eval-used
    return r.v


def base_expr(vec):
    import sympy
    e = sympy.Integer(1)
    for b, x in zip(units_ref.BASES, vec):
        if x != 0:
            e = e * units_ref.sympy_unit(units_ref.SI_BASE_UNIT[b]) ** sympy.Rational(x.numerator, x.denominator)
    return e


def dimension_of(vec):
    from sympy.physics import units as U
    from sympy.physics.units import Dimension
    import sympy
    d = Dimension(1)
    for b, x in zip(units_ref.BASES, vec):
        if x != 0:
            d = d * getattr(U, b) ** sympy.Rational(x.numerator, x.denominator)
    return d


def rand_vec(r):
    k = r.choice([1, 1, 2, 2, 3])
    v = [Fr(0)] * 7
    for i in r.sample(range(7), k):
        v[i] = r.choice([Fr(1), Fr(1), Fr(-1), Fr(2), Fr(-2), Fr(3), Fr(-3), Fr(1, 2), Fr(-1, 2), Fr(3, 2)])
    return tuple(v)


def observe(fn):
    from symplyphysics.core.errors import UnitsError
    try:
        fn()
        return "ok", ""
    except UnitsError as x:
        return "UnitsError", str(x)
    except TypeError as x:
        return "TypeError", str(x)
    except Exception as x:  # pylint: disable=broad-except
        return type(x).__name__, str(x)


# ---------- (a) core ----------
def make_actual(r, declared_vec, klass, mag, prefix):
    """-> (sympy/py object, ('any',)|('vec', v), description)"""
    import sympy
    from sympy.physics.units import prefixes as P
    from symplyphysics import Quantity, Symbol
    pre = {None: 1, "kilo": P.kilo, "milli": P.milli}[prefix]
    if klass == "equal":
        return Quantity(mag * pre * base_expr(declared_vec)), ("vec", declared_vec), "equal"
    if klass == "derived":
        # spell part of the dimension with a derived unit: D = derived * rest
        name, alts = r.choice(DERIVED)
        dv = units_ref.UNITS[name][1]
        rest = units_ref.vmul(declared_vec, units_ref.vpow(dv, -1))
        alt = r.choice(alts + [name])
        return Quantity(mag * pre * expr_from_text(alt) * base_expr(rest)), ("vec", declared_vec), f"derived:{alt}"
    if klass == "angle":
        from sympy.physics import units as U
        return Quantity(mag * pre * base_expr(declared_vec) * r.choice([U.radian, U.degree, U.radian ** 2, 1 / U.radian])), ("vec", declared_vec), "angle-factor"
    if klass == "offbyone":
        v = list(declared_vec)
        i = r.randrange(7)
        v[i] = v[i] + r.choice([1, -1, Fr(1, 2)])
        v = tuple(v)
        if v == units_ref.ZERO:
            v = tuple([Fr(1)] + [Fr(0)] * 6) if declared_vec != tuple([Fr(1)] + [Fr(0)] * 6) else tuple([Fr(0), Fr(1)] + [Fr(0)] * 5)
        return Quantity(mag * pre * base_expr(v)), ("vec", v), "off-by-one"
    if klass == "dimensionless_quantity":
        from sympy.physics import units as U
        return Quantity(mag * r.choice([1, U.radian, U.percent])), ("vec", units_ref.ZERO), "dimensionless quantity"
    if klass == "number":
        return r.choice([mag, float(mag), int(mag) or 7]), ("vec", units_ref.ZERO), "bare number"
    if klass == "zero":
        other = rand_vec(r)
        return r.choice([0, 0.0, Quantity(0), Quantity(0 * base_expr(other)), Quantity(sympy.Float(0.0))]), ("any",), "zero"
    if klass == "inf":
        other = rand_vec(r)
        return r.choice([sympy.oo, Quantity(sympy.oo * base_expr(other)), -sympy.oo, Quantity(sympy.nan), sympy.nan]), ("any",), "inf/nan"
    if klass == "symbol":
        same = r.random() < 0.5
        v = declared_vec if same else rand_vec(r)
        return Symbol("a", dimension_of(v)), ("vec", v), "symbol argument"
    raise ValueError(klass)


CLASSES = ["equal", "derived", "derived", "angle", "offbyone", "offbyone", "dimensionless_quantity", "number", "zero", "inf", "symbol"]


def make_declaration(r, vec):
    from symplyphysics import Symbol, Function, IndexedSymbol
    d = dimension_of(vec)
    k = r.random()
    if k < 0.4:
        return d, "Dimension"
    if k < 0.65:
        return Symbol("decl", d), "Symbol"
    if k < 0.8:
        return Function("declf", [Symbol("x")], d), "Function"
    return IndexedSymbol("decli", None, d), "IndexedSymbol"


def core_case(r, rec):
    from symplyphysics import validate_input, validate_output, QuantityVector
    from symplyphysics.core.quantity_decorator import validate_output_same
    declared_vec = rand_vec(r)
    if declared_vec == units_ref.ZERO:
        return
    decl, decl_kind = make_declaration(r, declared_vec)
    dref = "ANY" if decl_kind == "wildcard" else declared_vec
    shape = r.choice(["scalar", "scalar", "sequence", "vector", "output", "output", "output_same", "tuple_spec"])
    klass = r.choice(CLASSES)
    base_mag = r.choice([Fr(3, 2), Fr(7), Fr(1, 8)])
    verdicts = set()
    case = {"declared": units_ref.vfmt(declared_vec), "decl_kind": decl_kind, "shape": shape, "class": klass}
    seed_actual = r.getrandbits(32)
    outcomes = []
    for scale, prefix in ((1, None), (10**-30, "kilo"), (10**30, "milli")):
        import random as _random
        rr = _random.Random(seed_actual)
        mag = base_mag * scale
        import sympy
        mag_s = sympy.Rational(mag.numerator, mag.denominator) if scale == 1 else sympy.Float(float(mag))
        try:
            if shape in ("scalar", "output", "output_same"):
                obj, aref, desc = make_actual(rr, declared_vec, klass, mag_s, prefix)
                want, _ = ref_gate(aref, dref), None
                want_name = None
            elif shape in ("sequence", "tuple_spec"):
                n = rr.randint(1, 4)
                j = rr.randrange(n)
                objs, refs = [], []
                for i in range(n):
                    o, a, _ = make_actual(rr, declared_vec, klass if i == j else rr.choice(["equal", "derived", "zero"]), mag_s, prefix)
                    if hasattr(o, "dimension") and not hasattr(o, "scale_factor") and False:
                        pass
                    objs.append(o)
                    refs.append(a)
                obj = objs
                want, idx = ref_combine([ref_gate(a, dref) for a in refs])
                want_name = idx
                desc = f"sequence n={n} bad@{j}"
            else:  # vector
                n = rr.randint(1, 3)
                j = rr.randrange(n)
                comps, refs = [], []
                kl = klass if klass not in ("symbol",) else "offbyone"
                for i in range(n):
                    o, a, _ = make_actual(rr, declared_vec, kl if i == j else rr.choice(["equal", "zero"]), mag_s, prefix)
                    comps.append(o)
                    refs.append(a)
                # reference for the vector as a whole: every component must pass the scalar rule
                want, _ = ref_combine([ref_gate(a, dref) for a in refs])
                want_name = None
                desc = f"vector n={n} special@{j}"
                non_any = [a[1] for a in refs if a[0] == "vec"]
                mixed = len(set(non_any)) > 1
                if mixed:
                    # the same components with an explicit dimension= (that of any of the quantities): the gate trusts the
                    # vector's declared dimension, so a ready-made quantity of another dimension must not get in this way
                    qidx = [i for i, (c, a) in enumerate(zip(comps, refs)) if a[0] == "vec" and hasattr(c, "dimension")]
                    if len({refs[i][1] for i in qidx}) < 2:
                        qidx = []  # a bare number is given the explicit dimension by the constructor: only ready-made quantities count
                    for i in qidx[:2]:
                        rec.hit("vector_explicit_dimension_mixed")
                        try:
                            QuantityVector(comps, dimension=comps[i].dimension)
                        except Exception:  # pylint: disable=broad-except
                            continue
                        rec.violation("vector-mixed-dimensions-constructed:explicit-dimension", f"QuantityVector({[str(c) for c in comps]}, dimension={comps[i].dimension}) accepted components of different dimensions", case)
                        return
                try:
                    obj = QuantityVector(comps)
                    if mixed:
                        rec.violation("vector-mixed-dimensions-constructed", f"QuantityVector accepted components of different dimensions: {[str(c) for c in comps]}", case)
                        return
                except Exception as x:  # pylint: disable=broad-except
                    if mixed or any(not hasattr(c, "scale_factor") and not isinstance(c, (int, float)) and not getattr(c, "is_number", False) for c in comps):
                        rec.hit("vector_construction_refused_mixed")
                        return
                    # all components equivalent (or any-valued) but construction refused
                    if all(a[0] == "any" or a[1] == (non_any[0] if non_any else None) for a in refs):
                        rec.violation(f"vector-construction-refused:{type(x).__name__}", f"QuantityVector refused equivalent components {[str(c) for c in comps]}: {str(x)[:120]}", case)
                    return
        except Exception as x:  # pylint: disable=broad-except
            rec.inconc("could not build actual argument: " + type(x).__name__, {"case": case, "err": str(x)[:100]})
            return
        if shape == "tuple_spec":
            spec = tuple(decl for _ in obj)
        else:
            spec = decl
        # the guarded functions
        if shape in ("scalar", "sequence", "vector", "tuple_spec"):
            @validate_input(p_=spec)
            def f(other, p_, third=None):  # pylint: disable=unused-argument
                return 1
            styles = {"positional": lambda: f(5, obj), "keyword": lambda: f(5, p_=obj), "all-keyword": lambda: f(third=1, p_=obj, other=2)}
            pname = "p_"
        elif shape == "output":
            @validate_output(spec)
            def g(x):
                return x
            styles = {"positional": lambda: g(obj), "keyword": lambda: g(x=obj)}
            pname = "return"
        else:
            @validate_output_same("ref_")
            def h(x, ref_):  # pylint: disable=unused-argument
                return x
            # the reference argument defines the declaration
            from symplyphysics import Quantity
            refarg = Quantity(2 * base_expr(declared_vec))
            styles = {"positional": lambda: h(obj, refarg), "keyword": lambda: h(ref_=refarg, x=obj)}
            pname = "return"
            if decl_kind == "wildcard":
                want = ref_gate(aref, declared_vec)
        for sname, call in styles.items():
            got, msg = observe(call)
            rec.hit("core_calls")
            rec.hit(got if got in ("ok", "TypeError", "UnitsError") else "other_exception")
            outcomes.append((scale, prefix, sname, got))
            if got != want:
                kind = "admits" if got == "ok" else ("refuses" if want == "ok" else "wrong-exception")
                rec.violation(f"{kind}:{shape}:{klass}:{decl_kind if kind != 'wrong-exception' else want + '->' + got}",
                              f"{shape}/{sname}: declared {units_ref.vfmt(declared_vec)} ({decl_kind}), actual {desc}: observed {got} ({msg[:100]}), reference {want}", dict(case, style=sname, scale=str(scale)))
                return
            if got != "ok" and shape in ("scalar", "sequence", "tuple_spec", "vector", "output", "output_same"):
                expect_name = f"'{pname}[{want_name}]'" if want_name is not None else f"'{pname}"
                if expect_name not in msg:
                    rec.violation(f"message-lacks-parameter:{shape}", f"error message does not name {expect_name}: {msg[:150]}", case)
                    return
        verdicts.add(want)
    if len({o[3] for o in outcomes}) > 1:
        rec.violation(f"verdict-depends-on-magnitude-or-style:{shape}:{klass}", f"outcomes differ: {outcomes}", case)
        return
    rec.case((case, seed_actual), nontrivial=klass != "equal")
    rec.hit({"scalar": "scalar", "sequence": "sequence", "tuple_spec": "sequence", "vector": "vector", "output": "output", "output_same": "output_same"}[shape])
    rec.hit("accept" if "ok" in verdicts else "refuse")
    if len(rec.samples) < 5:
        rec.sample(dict(case, reference=sorted(verdicts), observed=outcomes[0][3]))


def curvilinear_vector_case(r, rec):
    """quantity vectors given in cylindrical / spherical coordinates: angle components are angles, every other component
    carries the vector's dimension; a vector is 'zero' (any dimension) only if all its components are"""
    import sympy
    from symplyphysics import validate_input, validate_output, Quantity, QuantityVector, CoordinateSystem
    declared_vec = rand_vec(r)
    if declared_vec == units_ref.ZERO:
        return
    decl, decl_kind = make_declaration(r, declared_vec)
    if decl_kind == "wildcard":
        return
    sysname = r.choice(["CYLINDRICAL", "SPHERICAL"])
    cs = CoordinateSystem(getattr(CoordinateSystem.System, sysname))
    same = r.random() < 0.4
    actual_vec = declared_vec
    while not same and actual_vec == declared_vec:
        actual_vec = rand_vec(r)
    if actual_vec == units_ref.ZERO:
        return
    unit = base_expr(actual_vec)
    adim = dimension_of(actual_vec)

    def lin(kind):
        if kind == "zero":
            return r.choice([0, sympy.Float(0.0), Quantity(0 * unit)])
        return Quantity(r.choice([2, sympy.Rational(7, 3), -1.5]) * unit)
    n_lin = 2 if sysname == "CYLINDRICAL" else 1
    kinds = [r.choice(["zero", "zero", "value"]) for _ in range(n_lin)]
    # (angles are given as dimensionless quantities: a bare number would be given the vector's dimension by `dimension=`)
    angles = [Quantity(r.choice([0, 0, sympy.Rational(7, 10)])) for _ in range(3 - n_lin)]
    if all(k == "zero" for k in kinds) and any(a.scale_factor != 0 for a in angles):
        return  # (which object 'zero radius, non-zero angle' is, the statement does not say)
    comps = [lin(kinds[0]), angles[0], lin(kinds[1])] if sysname == "CYLINDRICAL" else [lin(kinds[0]), angles[0], angles[1]]
    case = {"system": sysname, "declared": units_ref.vfmt(declared_vec), "actual": units_ref.vfmt(actual_vec), "components": [str(c) for c in comps], "decl_kind": decl_kind}
    try:
        obj = QuantityVector(comps, cs, dimension=adim)
    except Exception as x:  # pylint: disable=broad-except
        rec.violation(f"vector-construction-refused:{type(x).__name__}:{sysname}", f"QuantityVector({case['components']}, {sysname}, dimension={adim}) refused: {str(x)[:120]}", case)
        return
    want = "ok" if (same or all(k == "zero" for k in kinds)) else "UnitsError"

    @validate_input(p_=decl)
    def f(other, p_):  # pylint: disable=unused-argument
        return 1

    @validate_output(decl)
    def g(x):
        return x
    rec.case(("curvilinear", str(case)), nontrivial=not same)
    for sname, call in (("input/positional", lambda: f(1, obj)), ("input/keyword", lambda: f(other=1, p_=obj)), ("output", lambda: g(obj))):
        got, msg = observe(call)
        rec.hit("curvilinear_vector_calls")
        if got != want:
            kind = "admits" if got == "ok" else ("refuses" if want == "ok" else "wrong-exception")
            rec.violation(f"{kind}:curvilinear-vector:{sysname}", f"{sname}: declared {case['declared']} ({decl_kind}), {sysname} vector {case['components']} of dimension {case['actual']}: observed {got} ({msg[:100]}), reference {want}", case)
            return


def foreign_dimension_case(r, rec):
    """a base dimension outside the seven SI ones (information) is a dimension like any other: a factor of it makes a
    quantity inequivalent, and a declaration that carries it admits exactly the quantities that carry it too"""
    import sympy
    from sympy.physics import units as U
    from symplyphysics import validate_input, validate_output, Quantity, Symbol
    declared_vec = rand_vec(r)
    base = base_expr(declared_vec)
    info_unit = r.choice([U.bit, U.byte, U.kibibyte])
    mag = r.choice([2, sympy.Rational(7, 3), 1.5])
    decl_with = r.random() < 0.5
    decl_dim = dimension_of(declared_vec) * (U.bit.dimension if decl_with else 1)
    decl = decl_dim if r.random() < 0.5 else Symbol("decl", decl_dim)
    arg_with = r.random() < 0.5
    arg = Quantity(mag * base * (info_unit if arg_with else 1))
    if not decl_with and not arg_with and declared_vec == units_ref.ZERO:
        return
    want = "ok" if decl_with == arg_with else "UnitsError"
    case = {"declared": units_ref.vfmt(declared_vec) + (" x information" if decl_with else ""), "actual": str(mag * base * (info_unit if arg_with else 1))}

    @validate_input(p_=decl)
    def f(p_):  # pylint: disable=unused-argument
        return 1

    @validate_output(decl)
    def g(x):
        return x
    rec.case(("foreign", str(case)), nontrivial=True)
    for sname, call in (("input", lambda: f(arg)), ("input/keyword", lambda: f(p_=arg)), ("output", lambda: g(arg))):
        got, msg = observe(call)
        rec.hit("foreign_dimension_calls")
        if got != want:
            kind = "admits" if got == "ok" else ("refuses" if want == "ok" else "wrong-exception")
            rec.violation(f"{kind}:information-dimension", f"{sname}: declared {case['declared']}, actual {case['actual']}: observed {got} ({msg[:100]}), reference {want}", case)
            return


# ---------- (b) catalogue ----------
def kind_of_param(inner, name):
    try:
        ann = str(inspect.signature(inner).parameters[name].annotation)
    except Exception:  # pylint: disable=broad-except
        ann = ""
    if "QuantityVector" in ann:
        return "vector"
    if "Sequence" in ann or "list" in ann or "tuple" in ann.lower():
        return "sequence"
    return "scalar"


def valid_arg(spec, kind, mag=2):
    from symplyphysics import Quantity, QuantityVector
    from symplyphysics.core.dimensions import dimension_to_si_unit
    dims = catalogue.spec_dimension(spec)
    def q(d, m=mag):
        if type(d).__name__ == "AnyDimension":
            return Quantity(m)
        return Quantity(m * dimension_to_si_unit(d))
    if isinstance(dims, list):
        return [q(d) for d in dims]
    if kind == "vector":
        return QuantityVector([q(dims), q(dims, 3), q(dims, 1)])
    if kind == "sequence":
        return [q(dims), q(dims, 3)]
    return q(dims)


def wrong_arg(spec, kind, j=0):
    """same shape, but element j has dimension D*length*mass (never equivalent, never dimensionless)"""
    from sympy.physics import units as U
    from symplyphysics import Quantity, QuantityVector
    from symplyphysics.core.dimensions import dimension_to_si_unit
    dims = catalogue.spec_dimension(spec)
    def bad(d):
        return Quantity(5 * dimension_to_si_unit(d) * U.meter * U.kilogram)
    def q(d, m=2):
        return Quantity(m * dimension_to_si_unit(d))
    if isinstance(dims, list):
        return [bad(d) if i == j else q(d) for i, d in enumerate(dims)], j
    if kind == "vector":
        return QuantityVector([bad(dims), bad(dims), bad(dims)]), None
    if kind == "sequence":
        return [bad(dims) if i == j else q(dims) for i in range(2)], j
    return bad(dims), None


def catalogue_work(spec, rec):
    import symplyphysics  # noqa pylint: disable=unused-import
    from symplyphysics.core.dimensions import any_dimension  # noqa
    for name in spec["modules"]:
        rec.checkpoint()
        try:
            mod = catalogue.import_module(name)
        except Exception as x:  # pylint: disable=broad-except
            rec.inconc("module does not import (reported by C03)", {"module": name, "err": type(x).__name__})
            continue
        for fname, func in catalogue.functions(mod):
            g = catalogue.guard_specs(func)
            if not g["layers"]:
                continue
            rec.hit("catalogue_functions")
            inner = g["inner"]
            try:
                params = list(inspect.signature(inner).parameters)
            except Exception:  # pylint: disable=broad-except
                continue
            short = name.split("symplyphysics.")[-1]
            for key in g["inputs"]:
                if key not in params:
                    rec.case(("guardname", short, fname, key))
                    rec.violation(f"guard-names-no-parameter:{short}.{fname}:{key}",
                                  f"{short}.{fname}: guard '{key}' names no parameter of {params}; the corresponding argument is unchecked", {"module": name, "function": fname, "guard": key})
            guarded = [p for p in params if p in g["inputs"]]
            for p in guarded:
                spec_p = g["inputs"][p]
                dims = catalogue.spec_dimension(spec_p)
                flat = dims if isinstance(dims, list) else [dims]
                if any(type(d).__name__ == "AnyDimension" for d in flat):
                    rec.add("wildcard_params_skipped")
                    continue
                kind = kind_of_param(inner, p)
                try:
                    kwargs = {}
                    for o in params:
                        if o == p:
                            continue
                        if o in g["inputs"]:
                            kwargs[o] = valid_arg(g["inputs"][o], kind_of_param(inner, o))
                        else:
                            kwargs[o] = symplyphysics.Quantity(1)
                    bad, idx = wrong_arg(spec_p, kind, j=1 if kind == "sequence" or isinstance(dims, list) and len(dims) > 1 else 0)
                except Exception as x:  # pylint: disable=broad-except
                    rec.inconc("cannot build catalogue arguments: " + type(x).__name__, {"module": name, "function": fname, "param": p, "err": str(x)[:100]})
                    continue
                rec.case(("catalogue", short, fname, p))
                rec.hit("catalogue_params")
                case = {"module": name, "function": fname, "param": p, "kind": kind}
                got, msg = observe(lambda: func(**dict(kwargs, **{p: bad})))
                want_name = f"'{p}[{idx}]'" if idx is not None else f"'{p}'"
                if got != "UnitsError":
                    rec.violation(f"catalogue-admits-wrong-dimension:{short}.{fname}:{p}" if got == "ok" else f"catalogue-wrong-exception:{short}.{fname}:{p}:{got}",
                                  f"{short}.{fname}({p}=<declared x length x mass>) -> {got} ({msg[:120]}), expected UnitsError naming {want_name}", case)
                elif want_name not in msg and f"'{p}" not in msg:
                    rec.violation(f"catalogue-message-lacks-parameter:{short}.{fname}:{p}", f"UnitsError does not name {want_name}: {msg[:150]}", case)
                # bare non-zero number where a dimensional quantity is required
                dimensional = all(units_ref.observed_vector(d) not in (units_ref.ZERO, None) for d in flat)
                if dimensional:
                    num = 100 if kind == "scalar" else None
                    if num is not None:
                        got2, msg2 = observe(lambda: func(**dict(kwargs, **{p: num})))
                        rec.hit("catalogue_bare_number")
                        if got2 != "TypeError":
                            rec.violation(f"catalogue-bare-number:{short}.{fname}:{p}:{got2}", f"{short}.{fname}({p}=100) -> {got2} ({msg2[:100]}), expected TypeError", case)
                        elif f"'{p}'" not in msg2:
                            rec.violation(f"catalogue-message-lacks-parameter:{short}.{fname}:{p}", f"TypeError does not name '{p}': {msg2[:150]}", case)
                if len(rec.samples) < 4:
                    rec.sample(dict(case, observed=got, message=msg[:120]))


def work(spec, rec):
    if spec.get("kind") == "suite":
        harness.run_suite("C04", harness.SUITE_QUICK if spec["tier"] == "quick" else harness.SUITE_FULL, rec)
        rec.case(("suite", spec["tier"]))
        return
    if spec.get("kind") == "catalogue":
        catalogue_work(spec, rec)
        return
    r = harness.rng_for("C04", spec["seed"], spec["shard"])
    for i in range(spec["cases"]):
        rec.checkpoint()
        rr = harness.rng_for("C04case", spec["seed"], spec["shard"], i)
        try:
            with harness.Watchdog(30):
                core_case(rr, rec)
                if i % 4 == 0:
                    curvilinear_vector_case(rr, rec)
                if i % 8 == 1:
                    foreign_dimension_case(rr, rec)
        except TimeoutError:
            rec.inconc("watchdog")


def replay(case, rec):
    if "module" in case:
        catalogue_work({"modules": [case["module"]]}, rec)
    else:
        rec.note("core cases are regenerated from (seed, shard, index); rerun the tier with the same VERIF_SEED: " + str(case)[:300])
