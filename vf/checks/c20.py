"""C20 - physical constants carry reference values and dimensions.
Monitor: after the real import of symplyphysics.quantities, observe scale factor and dimension of every
exported Quantity (and every other public Quantity of the module); oracle: committed reference table +
identities evaluated on the observed values."""
from __future__ import annotations

import json
import os
from fractions import Fraction as Fr

from vf import harness, units_ref

RULE = ("exhaustive over the finite constants table: every name in quantities.__all__ plus every other public "
        "Quantity attribute of the module is one case (value + dimension vs the committed CODATA/IAU table, through "
        "scale_factor under the ratio convention AND through convert_to_si); every identity of the statement is one case "
        "(value and exponent vector, computed on the observed values). distinct = distinct constant/identity names.")
ASSUMPTIONS = ["vf/data/constants_ref.json (typed from CODATA 2018/2022, IAU 2015) is the reference",
               "SymPy's dimsys_SI.get_dimensional_dependencies is trusted to expand a Dimension into base exponents"]
MIN_REACH = {"quick": {"constant_checked": 25, "identity_checked": 7, "registry_checked": 25, "constant_rechecked": 25},
             "thorough": {"constant_checked": 25, "identity_checked": 7, "registry_checked": 25, "constant_rechecked": 25}}


def plan(tier, seed):
    return [{"_label": "constants"}]


class DV:
    """value with exponent vector (own arithmetic for the identities)"""

    def __init__(self, v, vec):
        self.v, self.vec = v, vec

    def _c(self, o):
        return o if isinstance(o, DV) else DV(o, units_ref.ZERO)

    def __mul__(self, o):
        o = self._c(o)
        return DV(self.v * o.v, units_ref.vmul(self.vec, o.vec))

    __rmul__ = __mul__

    def __truediv__(self, o):
        o = self._c(o)
        return DV(self.v / o.v, units_ref.vmul(self.vec, units_ref.vpow(o.vec, -1)))

    def __rtruediv__(self, o):
        return self._c(o) / self

    def __pow__(self, n):
        return DV(self.v ** n, units_ref.vpow(self.vec, n))


def work(spec, rec):
    import mpmath
    import sympy
    from sympy.physics.units import Quantity as SymQuantity
    import symplyphysics
    from symplyphysics import quantities as Q, convert_to_si
    mpmath.mp.dps = 30
    with open(os.path.join(harness.HOME, "vf", "data", "constants_ref.json")) as f:
        ref = json.load(f)
    table = ref["constants"]
    exported = list(getattr(Q, "__all__", []))
    public = [k for k, v in vars(Q).items() if not k.startswith("_") and isinstance(v, SymQuantity)]
    names = list(dict.fromkeys(exported + public))
    observed = {}
    for name in names:
        if not hasattr(Q, name):
            rec.violation(f"missing:{name}", f"{name} is listed in __all__ but is not an attribute", {"name": name})
            continue
        q = getattr(Q, name)
        if not isinstance(q, SymQuantity):
            if name in exported:
                rec.violation(f"notquantity:{name}", f"exported {name} is not a Quantity: {type(q).__name__}", {"name": name})
            continue
        if name not in table:
            rec.inconc("constant not in reference table (extend vf/data/constants_ref.json)", {"name": name})
            continue
        e = table[name]
        vec = units_ref.observed_vector(q.dimension)
        si = units_ref.observed_si_value(q)
        try:
            si_v = mpmath.mpf(sympy.N(si, 30))
            api_v = mpmath.mpf(sympy.N(convert_to_si(q), 30))
        except Exception as x:  # pylint: disable=broad-except
            rec.violation(f"value:{name}", f"{name}: SI value is not a real number: {si!r} ({x})", {"name": name})
            continue
        want_vec = tuple(Fr(x) for x in e["vec"])
        case = {"name": name, "si_value": str(si_v), "convert_to_si": str(api_v),
                "vector": units_ref.vfmt(vec) if isinstance(vec, tuple) and vec and not isinstance(vec[0], str) else str(vec),
                "reference": e["value"], "tol": e["tol"]}
        rec.case(("const", name))
        rec.hit("constant_checked")
        rec.sample(case)
        observed[name] = DV(si_v, vec)
        refv = mpmath.mpf(str(e["value"]))
        if vec != want_vec:
            rec.violation(f"dimension:{name}", f"{name} has dimension {case['vector']}, reference {units_ref.vfmt(want_vec)}", case)
        if abs(si_v - refv) > e["tol"] * abs(refv):
            rec.violation(f"value:{name}", f"{name} SI value {si_v} deviates from reference {refv} by "
                          f"{mpmath.nstr(abs(si_v - refv) / abs(refv), 3)} > {e['tol']}", case)
        if abs(api_v - si_v) > 1e-12 * abs(si_v):
            rec.violation(f"convert_to_si:{name}", f"convert_to_si({name}) = {api_v} but scale factor gives {si_v}", case)
        # the same constant read through the unit system it is registered in (what SymPy's own convert_to uses)
        try:
            from sympy.physics import units as U
            from sympy.physics.units.systems import SI
            reg_vec = units_ref.observed_vector(SI.get_quantity_dimension(q))
            conv = U.convert_to(q, [U.kilogram, U.meter, U.second, U.ampere, U.kelvin, U.mole, U.candela])
            coeff = sympy.N(conv.subs({b_: 1 for b_ in (U.kilogram, U.meter, U.second, U.ampere, U.kelvin, U.mole, U.candela)}), 30)
            rec.hit("registry_checked")
            if reg_vec != want_vec:
                rec.violation(f"dimension:{name}:unit-system", f"{name}: the SI unit system has it registered with dimension {SI.get_quantity_dimension(q)} (reference {units_ref.vfmt(want_vec)})", case)
            elif not coeff.is_number or abs(mpmath.mpf(sympy.N(coeff, 30)) - refv) > max(e["tol"], 1e-12) * abs(refv):
                rec.violation(f"value:{name}:unit-system", f"sympy convert_to({name}, SI base units) = {conv} (reference {refv})", case)
        except Exception as x:  # pylint: disable=broad-except
            rec.inconc("unit-system read raised " + type(x).__name__, {"name": name, "err": str(x)[:100]})
    for name in table:
        if name not in names:
            rec.violation(f"missing:{name}", f"reference constant {name} is absent from the constants module", {"name": name})
    # identities on observed values
    ns = dict(observed)
    ns["pi"] = mpmath.pi
    for ident in ref["identities"]:
        try:
            l = eval(ident["lhs"], {"__builtins__": {}}, ns)  # pylint: disable=eval-used
            r = eval(ident["rhs"], {"__builtins__": {}}, ns)  # pylint: disable=eval-used
        except NameError as x:
            rec.inconc("identity not evaluable: " + str(x), ident)
            continue
        l = l if isinstance(l, DV) else DV(mpmath.mpf(l), units_ref.ZERO)
        r = r if isinstance(r, DV) else DV(mpmath.mpf(r), units_ref.ZERO)
        case = {"identity": ident["name"], "lhs": str(l.v), "rhs": str(r.v), "lhs_vec": units_ref.vfmt(l.vec),
                "rhs_vec": units_ref.vfmt(r.vec), "tol": ident["tol"]}
        rec.case(("ident", ident["name"]))
        rec.hit("identity_checked")
        rec.sample(case)
        if l.vec != r.vec:
            rec.violation(f"identity-dimension:{ident['name']}", f"{ident['name']}: {case['lhs_vec']} vs {case['rhs_vec']}", case)
        if abs(l.v - r.v) > ident["tol"] * abs(r.v):
            rec.violation(f"identity:{ident['name']}", f"{ident['name']} violated: {l.v} vs {r.v} "
                          f"(rel {mpmath.nstr(abs(l.v - r.v) / abs(r.v), 3)} > {ident['tol']})", case)
        # the same identity through the library's own Quantity arithmetic (observes Quantity.__init__ on products)
        try:
            lns = {k: getattr(Q, k) for k in observed}
            lns["pi"] = sympy.pi
            lq = symplyphysics.Quantity(eval(ident["lhs"], {"__builtins__": {}}, lns))  # pylint: disable=eval-used
            rq = symplyphysics.Quantity(eval(ident["rhs"], {"__builtins__": {}}, lns))  # pylint: disable=eval-used
            lv = mpmath.mpf(sympy.N(units_ref.observed_si_value(lq), 30))
            rv = mpmath.mpf(sympy.N(units_ref.observed_si_value(rq), 30))
            rec.hit("identity_via_library")
            if abs(lv - rv) > ident["tol"] * abs(rv) or units_ref.observed_vector(lq.dimension) != units_ref.observed_vector(rq.dimension):
                rec.violation(f"identity-lib:{ident['name']}", f"{ident['name']} via Quantity arithmetic: {lv} vs {rv}", case)
        except Exception as x:  # pylint: disable=broad-except
            rec.inconc("identity via library raised " + type(x).__name__, {"identity": ident["name"], "err": str(x)})
    # the table must still be what it was after the constants have been *used*: every constant goes through the library's
    # conversion / evaluation / comparison functions, then values and dimensions are read again
    from symplyphysics import convert_to, assert_equal, Quantity
    from symplyphysics.core.convert import evaluate_quantity, evaluate_expression
    before = {n_: (units_ref.observed_si_value(getattr(Q, n_)), units_ref.observed_vector(getattr(Q, n_).dimension)) for n_ in observed}
    for n_ in observed:
        q = getattr(Q, n_)
        for use in (lambda: evaluate_quantity(q, n=4), lambda: evaluate_quantity(q), lambda: evaluate_expression(2 * q, evaluate=True, n=5), lambda: convert_to_si(q),
                    lambda: convert_to(q, Quantity(3 * q)), lambda: Quantity(q ** 2 / 3), lambda: assert_equal(q, q), lambda: sympy.N(q.scale_factor, 3)):
            try:
                use()
            except Exception:  # pylint: disable=broad-except
                rec.add("use_raised")
        rec.hit("constants_used")
    for n_ in observed:
        q = getattr(Q, n_)
        now = (units_ref.observed_si_value(q), units_ref.observed_vector(q.dimension))
        rec.hit("constant_rechecked")
        same_v = sympy.N(now[0], 30) == sympy.N(before[n_][0], 30)
        if not same_v or now[1] != before[n_][1]:
            rec.violation(f"value-changed-by-use:{n_}", f"{n_} was {sympy.N(before[n_][0], 20)} before the constants were passed through evaluate_quantity / convert_to / Quantity / assert_equal and is {sympy.N(now[0], 20)} afterwards", {"name": n_})
    rec.extra["exhaustive"] = True
    rec.extra["exported"] = len(exported)
    rec.extra["public_quantities"] = len(public)


def replay(case, rec):
    work({}, rec)
