"""C05 - Quantity construction computes the SI value and dimension, or refuses.
Workload: seeded expression trees over units, prefixes, numbers and previously created quantities.
Monitor: outcome of the real Quantity(expr) (scale factor, dimension, exception).
Oracle: reference evaluator over the very SymPy tree Quantity receives (own unit table, exponent vectors, refusal rule)."""
from __future__ import annotations

from fractions import Fraction as Fr

import mpmath

from vf import harness, units_ref

RULE = ("seeded random expression trees (depth<=4 quick, <=7 thorough) over the own unit table (~55 units), SymPy prefixes, "
        "ints/rationals/floats/0/oo/nan/complex, existing quantities, free symbols, elementary functions, Abs, Min/Max, with "
        "targeted shapes (cancelling partial sums, zero inside Min inside Pow, prefix x derived unit, rational powers of "
        "composite dimensions, equivalent-but-differently-spelled sums, mismatched sums, dimensional exponents). Each tree is "
        "passed to the real Quantity(); outcome compared with the reference evaluator: refusal <=> REFUSE, SI value (ratio "
        "convention) to 1e-12 rel., exponent vector when the value is finite and non-zero. non-trivial = tree has >=1 operator "
        "node and >=1 dimensional leaf; distinct = distinct srepr of the tree.")
RULE = RULE + ' Also: exponents and function arguments that are dimensionless only after derived dimensions are expanded (J/(N m), W s/J, Pa m^3/J, V A/W, C/(A s)).'
ASSUMPTIONS = ["vf/units_ref.py unit table is the reference for unit values/dimensions",
               "mpmath (40 digits, complex principal values) is the reference arithmetic",
               "SymPy's canonicalisation of the generated tree is shared by library and reference (both see the same object)"]
SHARD_TIMEOUT = {"quick": 240, "thorough": 2400}
N = {"quick": dict(trees=4800, depth=4), "thorough": dict(trees=64000, depth=7)}
MIN_REACH = {"quick": {"accepted_both": 1200, "refused_both": 300, "node:Add": 500, "node:Pow": 500, "node:MinMax": 100,
                       "node:Function": 100, "node:Abs": 50, "anyvalue_term_in_sum": 30, "targeted": 100},
             "thorough": {"accepted_both": 15000, "refused_both": 4000, "anyvalue_term_in_sum": 300}}

mpmath.mp.dps = 40


class Refuse(Exception):
    def __init__(self, kind, node=None):
        super().__init__(kind)
        self.kind = kind


class Ambiguous(Exception):
    """the reference cannot decide (zero-ness sensitive to rounding, value overflow...) -> inconclusive"""


def anyval(v):
    """zero, +-infinity or NaN (the statement's any-dimension values); complex infinities are outside the statement"""
    try:
        if isinstance(v, mpmath.mpc) and v.imag != 0:
            if mpmath.isinf(v) or mpmath.isnan(v):
                raise Ambiguous("complex infinity")
            return False
        return v == 0 or mpmath.isinf(v) or mpmath.isnan(v)
    except Ambiguous:
        raise
    except Exception:  # pylint: disable=broad-except
        return False


class RefEval:
    """reference evaluator: returns (value mpf/mpc, exponent vector)"""

    def __init__(self, qreg, rec=None):
        self.qreg = qreg
        self.rec = rec
        from sympy.physics import units
        self.unit_by_obj = {}
        for n in units_ref.available_units():
            self.unit_by_obj.setdefault(getattr(units, n), n)
        from sympy.physics.units import prefixes as P
        self.prefix_by_obj = {getattr(P, n): p for n, p in units_ref.PREFIXES.items() if hasattr(P, n)}

    def hit(self, name):
        if self.rec is not None:
            self.rec.hit(name)

    def num(self, e):
        import sympy
        if e is sympy.S.NaN:
            return mpmath.nan
        if e is sympy.S.Infinity:
            return mpmath.inf
        if e is sympy.S.NegativeInfinity:
            return -mpmath.inf
        if e is sympy.S.ComplexInfinity:
            raise Ambiguous("zoo")
        if e.is_Rational:
            return mpmath.mpf(int(e.p)) / int(e.q)
        if e.is_Float:
            return mpmath.mpf(e._mpf_)
        if e is sympy.S.ImaginaryUnit:
            return mpmath.mpc(0, 1)
        if e is sympy.S.Pi:
            return +mpmath.pi
        if e is sympy.S.Exp1:
            return +mpmath.e
        if isinstance(e, sympy.NumberSymbol):
            return mpmath.mpf(sympy.N(e, 45)._mpf_)
        raise Refuse("notnumber")

    def ev(self, e):
        import sympy
        from sympy.physics.units import Quantity as SymQuantity
        from sympy.physics.units.prefixes import Prefix
        if isinstance(e, SymQuantity):
            if e in self.qreg:
                return self.qreg[e]
            if e in self.unit_by_obj:
                v, vec = units_ref.UNITS[self.unit_by_obj[e]]
                return mpmath.mpf(v.numerator) / v.denominator, vec
            raise Ambiguous("unit not in own table: " + str(e))
        if isinstance(e, Prefix):
            if e in self.prefix_by_obj:
                return mpmath.mpf(10) ** self.prefix_by_obj[e], units_ref.ZERO
            raise Ambiguous("prefix not in own table")
        if isinstance(e, sympy.Mul):
            self.hit("node:Mul")
            v, vec = mpmath.mpf(1), units_ref.ZERO
            for a in e.args:
                av, avec = self.ev(a)
                v = v * av
                vec = units_ref.vmul(vec, avec)
            return v, vec
        if isinstance(e, sympy.Pow):
            self.hit("node:Pow")
            bv, bvec = self.ev(e.base)
            xv, xvec = self.ev(e.exp)
            if not (anyval(xv) or xvec == units_ref.ZERO):
                if units_ref.vec_close(xvec, units_ref.ZERO):
                    raise Ambiguous("exponent vectors differ only at float rounding level")
                raise Refuse("exponent")
            if bv == 0 and mpmath.re(xv) < 0:
                raise Ambiguous("0**negative")
            try:
                v = mpmath.power(bv, xv)
            except ZeroDivisionError:
                raise Ambiguous("0**negative")
            except (OverflowError, ValueError):
                raise Ambiguous("power overflow")
            if isinstance(xv, mpmath.mpf) and bvec != units_ref.ZERO and mpmath.isfinite(xv):
                if e.exp.is_Rational:
                    fx = Fr(int(e.exp.p), int(e.exp.q))
                else:
                    sgn, man, ex2, _ = xv._mpf_  # exact binary fraction of the reference exponent value
                    fx = Fr(int(man)) * (Fr(2) ** int(ex2)) * (-1 if sgn else 1)
                    if fx.denominator > 2**200 or abs(fx) > 10**6:
                        raise Ambiguous("exponent of dimensional base not representable")
                return v, units_ref.vpow(bvec, fx)
            if bvec != units_ref.ZERO:
                if anyval(xv):
                    raise Ambiguous("any-valued exponent of dimensional base")
                raise Ambiguous("complex exponent of dimensional base")
            return v, units_ref.ZERO
        if isinstance(e, (sympy.Add, sympy.Min, sympy.Max)):
            kind = "sum" if isinstance(e, sympy.Add) else "minmax"
            self.hit("node:Add" if kind == "sum" else "node:MinMax")
            terms = [self.ev(a) for a in e.args]
            dref = None
            for v, vec in terms:
                if anyval(v):
                    self.hit("anyvalue_term_in_" + kind)
                    continue
                if dref is None:
                    dref = vec
                elif dref != vec:
                    if units_ref.vec_close(dref, vec):
                        raise Ambiguous("exponent vectors differ only at float rounding level")
                    raise Refuse(kind + "-inequivalent")
            vals = [v for v, _ in terms]
            if kind == "sum":
                tot = mpmath.fsum(vals)
                mx = max((abs(v) for v in vals if not anyval(v)), default=0)
                if tot != 0 and mx != 0 and abs(tot) < mpmath.mpf("1e-11") * mx:
                    raise Ambiguous("sum cancels to rounding level")
                val = tot
            else:
                if any(isinstance(v, mpmath.mpc) and v.imag != 0 for v in vals) or any(mpmath.isnan(v) for v in vals):
                    raise Ambiguous("min/max of complex or nan")
                vals = [v.real if isinstance(v, mpmath.mpc) else v for v in vals]
                val = min(vals) if isinstance(e, sympy.Min) else max(vals)
            return val, (dref if dref is not None else units_ref.ZERO)
        if isinstance(e, sympy.Abs):
            self.hit("node:Abs")
            v, vec = self.ev(e.args[0])
            return abs(v), vec
        if isinstance(e, sympy.Derivative):
            raise Refuse("derivative")
        if isinstance(e, sympy.Function):
            self.hit("node:Function")
            vs = []
            for a in e.args:
                v, vec = self.ev(a)
                if not (anyval(v) or vec == units_ref.ZERO):
                    if units_ref.vec_close(vec, units_ref.ZERO):
                        raise Ambiguous("exponent vectors differ only at float rounding level")
                    raise Refuse("fnarg")
                if mpmath.isinf(v) or mpmath.isnan(v):
                    raise Ambiguous("function of an infinite/NaN argument has no numeric value")
                vs.append(v)
            name = type(e).__name__
            fn = {"sin": mpmath.sin, "cos": mpmath.cos, "tan": mpmath.tan, "exp": mpmath.exp, "log": mpmath.log,
                  "sinh": mpmath.sinh, "cosh": mpmath.cosh, "tanh": mpmath.tanh, "atan": mpmath.atan,
                  "asin": mpmath.asin, "acos": mpmath.acos}.get(name)
            fn2 = {"atan2": mpmath.atan2, "besselj": mpmath.besselj, "bessely": mpmath.bessely}.get(name)
            if fn2 is not None and len(vs) == 2:
                # functions of several arguments: every argument dimensionless (checked above)
                try:
                    fv2 = fn2(*[mpmath.re(v_) if isinstance(v_, mpmath.mpc) and v_.imag == 0 else v_ for v_ in vs])
                except (ValueError, ZeroDivisionError, OverflowError, TypeError):
                    raise Ambiguous("function value undefined")
                if mpmath.isinf(fv2) or mpmath.isnan(fv2) or (fv2 != 0 and abs(fv2) < mpmath.mpf(10) ** -25):
                    raise Ambiguous("function value infinite or zero at rounding level")
                return fv2, units_ref.ZERO
            if fn is None or len(vs) != 1:
                raise Ambiguous("function not in reference: " + name)
            try:
                fv = fn(vs[0])
            except (ValueError, ZeroDivisionError, OverflowError):
                raise Ambiguous("function value undefined")
            if mpmath.isinf(fv) or mpmath.isnan(fv):
                raise Ambiguous("function value infinite (SymPy: complex infinity for log(0))")   # outside the statement
            if fv != 0 and abs(fv) < mpmath.mpf(10) ** -25 and abs(vs[0]) > mpmath.mpf(10) ** -15:
                # cos(-5 pi / 2): exactly zero for SymPy when the argument is symbolic in pi, 1e-51 for a numeric reference
                raise Ambiguous("zero-ness of a function value at rounding level")
            return fv, units_ref.ZERO
        if e.free_symbols:
            raise Refuse("symbol")
        if e.is_number:
            return self.num(e), units_ref.ZERO
        raise Ambiguous("node outside the statement: " + type(e).__name__)


# ---------------- generator ----------------
class Gen:
    def __init__(self, r, rec):
        import sympy
        from sympy.physics import units
        from sympy.physics.units import prefixes as P
        import symplyphysics
        self.r = r
        self.sp = sympy
        self.units = [getattr(units, n) for n in units_ref.available_units()]
        self.unit_names = units_ref.available_units()
        self.prefix_objs = [getattr(P, n) for n in units_ref.PREFIXES if hasattr(P, n)]
        self.lib_prefixes = list(symplyphysics.prefixes)
        self.x = symplyphysics.Symbol("x")
        self.plain = sympy.Symbol("y")
        self.qreg = {}
        self.Quantity = symplyphysics.Quantity
        self.ref = RefEval(self.qreg)
        self.rec = rec
        self.used_units = set()

    def unit(self):
        i = self.r.randrange(len(self.units))
        self.used_units.add(self.unit_names[i])
        return self.units[i]

    def number(self):
        sp, r = self.sp, self.r
        k = r.random()
        if k < 0.45:
            return sp.Integer(r.choice([1, 2, 3, -1, -2, 5, 10, 7, -4]))
        if k < 0.65:
            return sp.Rational(r.choice([1, 3, -5, 7]), r.choice([2, 3, 4, 10]))
        if k < 0.85:
            return sp.Float(r.choice([0.5, 2.5, -1.25, 1e-3, 3e8, 6.02e23, 1.6e-19]))
        if k < 0.92:
            return sp.Integer(0)
        if k < 0.95:
            return r.choice([sp.S.Infinity, sp.S.NaN, sp.S.NegativeInfinity, sp.Float(0.0)])
        return r.choice([sp.I, 2 + 3 * sp.I, sp.pi, sp.E])

    def existing_quantity(self):
        """a quantity created earlier through the real constructor whose (value, vector) the reference recorded itself"""
        e = self.gen(1)
        try:
            v, vec = self.ref.ev(e)
        except (Refuse, Ambiguous):
            return self.unit()
        try:
            q = self.Quantity(e)
        except Exception:  # pylint: disable=broad-except
            return self.unit()
        self.qreg[q] = (v, vec)
        return q

    def leaf(self):
        r = self.r
        k = r.random()
        if k < 0.45:
            return self.unit()
        if k < 0.72:
            return self.number()
        if k < 0.80:
            return r.choice(self.prefix_objs)
        if k < 0.83:
            return self.sp.sympify(r.choice(self.lib_prefixes))
        if k < 0.95:
            return self.existing_quantity()
        if k < 0.98:
            return self.x
        return self.plain

    def gen(self, d):
        sp, r = self.sp, self.r
        if d <= 0 or r.random() < 0.18:
            return self.leaf()
        k = r.random()
        if k < 0.28:
            return self.gen(d - 1) * self.gen(d - 1)
        if k < 0.38:
            return self.gen(d - 1) / self.gen(d - 1)
        if k < 0.56:
            return self.gen(d - 1) + self.gen(d - 1)
        if k < 0.62:
            return self.gen(d - 1) - self.gen(d - 1)
        if k < 0.76:
            ex = r.choice([2, 3, -1, -2, sp.Rational(1, 2), sp.Rational(1, 3), sp.Rational(3, 2), sp.Rational(-2, 3), 0,
                           self.gen(0), self.gen(1)])
            ex = sp.sympify(ex)
            try:
                exv = self.ref.ev(ex)[0]
                big = mpmath.isfinite(exv) and abs(exv) > 4
            except (Refuse, Ambiguous):
                big = False
            if big:
                ex = sp.Integer(2)  # keep towers small (exact big-integer powers would dominate the run)
            return self.gen(d - 1) ** ex
        if k < 0.82:
            return sp.Abs(self.gen(d - 1))
        if k < 0.91:
            n = r.choice([2, 2, 3])
            return r.choice([sp.Min, sp.Max])(*[self.gen(d - 1) for _ in range(n)])
        if k < 0.93:
            return sp.sqrt(self.small(self.gen(d - 1)))
        return r.choice([sp.sin, sp.cos, sp.exp, sp.log, sp.tanh, sp.atan])(self.small(self.gen(d - 1)))

    def small(self, arg):
        """function arguments / sqrt radicands of astronomically large value make SymPy evaluate e.g. sin(exp(1e9)) to
        millions of digits; such inputs are replaced (they test SymPy's evalf, not the collector)"""
        try:
            v = self.ref.ev(self.sp.sympify(arg))[0]
            if mpmath.isfinite(v) and abs(v) > 1000:
                return self.number()
        except (Refuse, Ambiguous):
            pass
        return arg

    def same_dim_term(self, vec_unit=None):
        """random non-zero quantity term of the dimension of a chosen unit"""
        u = vec_unit or self.unit()
        return u, self.r.choice([1, 2, -3, self.sp.Rational(1, 2), self.sp.Float(2.5)]) * u

    def targeted(self):
        """shapes aimed at the interaction of branches"""
        sp, r = self.sp, self.r
        Q = self.Quantity
        k = r.randrange(19)
        u = self.unit()
        w = self.unit()
        def q(e):
            e = sp.sympify(e)
            obj = Q(e)
            try:
                self.qreg[obj] = self.ref.ev(e)
            except (Refuse, Ambiguous):
                pass
            return obj
        if k == 0:   # cancelling partial sum then another dimension, every order
            a, b, c = q(1 * u), q(-1 * u), q(1 * w)
            args = [a, b, c]
            r.shuffle(args)
            return sp.Add(*args, evaluate=False) if r.random() < 0.5 else sp.Add(*args)
        if k == 1:   # zero quantity with other dimension in sum
            return q(0 * u) + q(2 * w) + (q(3 * w) if r.random() < 0.5 else 0)
        if k == 2:   # zero inside Min inside Pow
            return sp.Min(q(0 * u), q(2 * w), q(5 * w)) ** r.choice([2, sp.Rational(1, 2), -1])
        if k == 3:   # prefix x derived unit, rational power of composite dimension
            return (r.choice(self.prefix_objs) * u * w ** -2) ** r.choice([sp.Rational(1, 2), sp.Rational(2, 3), 3])
        if k == 4:   # equivalent-but-differently-spelled sum
            from sympy.physics import units as U
            return r.choice([U.joule + U.newton * U.meter, U.watt * U.second + 3 * U.joule, U.volt * U.ampere + U.watt,
                             U.pascal * U.meter ** 3 + U.joule, U.hertz + 1 / U.second, U.coulomb / U.second + U.ampere,
                             U.ohm * U.ampere + U.volt, U.liter + U.meter ** 3, U.tesla * U.meter ** 2 + U.weber])
        if k == 5:   # mismatched sum deep inside
            return (u + 2 * w) * self.gen(1)
        if k == 6:   # dimensional exponent / function argument
            return r.choice([2 ** u, sp.exp(u / w), sp.sin(u), u ** (w / w), sp.exp(u / u), sp.log(u * w / (w * u))])
        if k == 7:   # Max/Min with running value hitting zero
            a, b, c = q(1 * u), q(0), q(1 * w)
            args = [a, b, c]
            r.shuffle(args)
            return r.choice([sp.Min, sp.Max])(*args)
        if k == 8:   # infinite / nan term in sum of another dimension
            return q(2 * u) + r.choice([sp.oo, sp.nan, -sp.oo]) * w
        if k == 9:   # Abs of negative/complex quantity, nested
            return sp.Abs(q((-3 + r.choice([0, 4]) * sp.I) * u)) + 2 * u
        if k == 10:  # zero factor in product followed by dimensional factor
            return q(0 * u) * w + q(3 * self.unit())
        if k == 11:
            return sp.Min(u, 2 * u, q(3 * u)) / sp.Max(w, q(2 * w))
        if k == 12:  # zero-valued base with a dimensional, non-zero exponent (must be refused), several spellings of zero
            z = r.choice([q(0 * u), q(2 * u) - q(2 * u), sp.Min(q(0 * u), q(3 * u))])
            return z ** r.choice([q(2 * w), w / self.unit(), 2 * w])
        if k == 13:  # zero-valued exponent that carries a dimension (compatible with any dimension: accepted)
            return (3 * u) ** r.choice([q(2 * w) - q(2 * w), q(0 * w)]) * r.choice([1, w])
        if k == 14:  # exponent / function argument that is dimensionless only once derived dimensions are expanded (J/(N m))
            from sympy.physics import units as U
            ratio = r.choice([(U.joule, U.newton * U.meter), (U.watt * U.second, U.joule), (U.pascal * U.meter ** 3, U.joule), (U.volt * U.ampere, U.watt),
                              (U.coulomb, U.ampere * U.second), (U.hertz * U.second, 1), (U.ohm * U.ampere, U.volt), (U.newton, U.kilogram * U.meter / U.second ** 2)])
            num, den = ratio
            ex = r.choice([num / den, q(3 * num) / q(2 * den), q(num) * r.choice([1, 2]) / den])
            base = r.choice([2, sp.Rational(3, 2), u, q(2 * u), 3 * w])
            return r.choice([base ** ex, base ** ex * w, sp.exp(ex) * u, base ** (ex + 1)])
        if k == 15:  # NaN as a term of a sum of another dimension (bare, and as a NaN-valued quantity): any dimension
            qn = Q(sp.nan, dimension=Q(1 * w).dimension)
            try:
                self.qreg[qn] = (mpmath.nan, self.ref.ev(1 * w)[1])
            except (Refuse, Ambiguous):
                pass
            return r.choice([sp.Add(q(2 * u), sp.nan, evaluate=False), q(2 * u) + qn, qn + q(3 * u) * r.choice([1, 2]),
                             sp.Add(sp.nan, q(2 * u) * q(3 * w), evaluate=False), sp.Add(q(5 * u), qn, q(-1 * u), evaluate=False)])
        if k == 16:  # a free symbol that does not reach the value (zero factor, unit base): still a free symbol - refused
            x_ = r.choice([self.x, self.plain])
            zero = r.choice([q(0 * u), q(3 * u) - q(3 * u)])
            return r.choice([zero * x_, q(3 * w) * x_ * zero, sp.exp(x_) * zero, q(1) ** x_, u ** x_, q(2 * u) + sp.sqrt(x_) * zero,
                             q(2 * u) * (1 + 0 * x_) if False else q(2 * u) + zero * x_ ** 2])
        if k == 17:  # functions of several arguments: every argument must be dimensionless
            good = [q(3), q(sp.Rational(1, 2)), q(2 * u) / q(1 * u), sp.Integer(2)]
            bad = [q(3 * u), q(2 * w), 2 * u]
            f = r.choice([sp.atan2, sp.besselj, sp.bessely])
            a1, a2 = (r.choice(good), r.choice(good + bad)) if r.random() < 0.5 else (r.choice(good + bad), r.choice(good))
            if f is not sp.atan2:
                a1 = r.choice([sp.Integer(0), sp.Integer(1), q(1)]) if r.random() < 0.7 else a1
            e_ = f(a1, a2)
            return r.choice([e_, e_ * w, e_ + q(2)])
        # any-valued operands deciding an unevaluated Min/Max or surviving in a sum
        a = q(r.choice([-3, 5, 2]) * u)
        return r.choice([sp.Max(q(0 * u), a), sp.Min(q(0 * w), a), sp.Max(a, q(0)), a + sp.oo, sp.Min(a, sp.oo * w), a - a + q(0 * w)])


def sym2mp(x):
    """sympy number -> mpf/mpc/nan/inf (None for zoo)"""
    import sympy
    x = sympy.sympify(x)
    if x is sympy.S.NaN:
        return mpmath.nan
    if x is sympy.S.Infinity:
        return mpmath.inf
    if x is sympy.S.NegativeInfinity:
        return -mpmath.inf
    if x.has(sympy.S.ComplexInfinity):
        return None
    if x.has(sympy.S.NaN):
        return mpmath.nan
    v = sympy.N(x, 40)
    re_, im_ = v.as_real_imag()
    def one(p):
        p = sympy.N(p, 40)
        if p is sympy.S.Infinity:
            return mpmath.inf
        if p is sympy.S.NegativeInfinity:
            return -mpmath.inf
        if p is sympy.S.NaN:
            return mpmath.nan
        if p.is_Integer or p.is_Rational:
            return mpmath.mpf(int(p.p)) / int(p.q)
        return mpmath.mpf(p._mpf_)
    r_, i_ = one(re_), one(im_)
    return r_ if i_ == 0 else mpmath.mpc(r_, i_)


def operators(e):
    import sympy
    n = 0
    for node in sympy.preorder_traversal(e):
        if node.args and not isinstance(node, sympy.physics.units.Quantity):
            n += 1
    return n


def check_tree(e, g: Gen, rec, label, origin=None):
    import sympy
    from sympy.physics.units import Quantity as SymQuantity
    ref = RefEval(g.qreg, rec)
    try:
        srepr = sympy.srepr(e)
    except Exception:  # pylint: disable=broad-except
        srepr = str(e)
    case = {"expr": str(e)[:300], "srepr": srepr[:1500], "label": label, "origin": origin}
    try:
        with harness.Watchdog(8):
            try:
                rv, rk = ref.ev(sympy.sympify(e)), None
            except Refuse as x:
                rv, rk = None, x.kind
    except Ambiguous as x:
        rec.inconc("reference undecided: " + str(x)[:60])
        return
    except TimeoutError:
        rec.inconc("watchdog in reference")
        return
    try:
        with harness.Watchdog(8):
            q = g.Quantity(e)
            lib, lex = (q.scale_factor, q.dimension), None
    except TimeoutError:
        rec.inconc("watchdog in Quantity()")
        return
    except Exception as x:  # pylint: disable=broad-except
        lib, lex = None, x
    nontriv = operators(e) >= 1 and any(isinstance(a, SymQuantity) for a in sympy.preorder_traversal(e))
    rec.case(srepr, nontrivial=nontriv)
    if rv is None and lib is None:
        rec.hit("refused_both")
        rec.hit("refused:" + rk)
        if not isinstance(lex, (ValueError, TypeError, sympy.SympifyError)):
            rec.add("crash_like_refusals")
            rec.note(f"refusal by {type(lex).__name__}: {str(e)[:100]}")
        return
    if rv is None:
        rec.violation(f"accepts:{rk}", f"Quantity({str(e)[:200]}) accepted (scale {lib[0]}, dim {lib[1]}) but must be refused: {rk}", case)
        return
    if lib is None:
        rec.violation(f"refuses:{type(lex).__name__}:{type(e).__name__}",
                      f"Quantity({str(e)[:200]}) refused with {type(lex).__name__}: {str(lex)[:150]}; reference value {rv[0]} vector {units_ref.vfmt(rv[1])}", case)
        return
    rec.hit("accepted_both")
    v, vec = rv
    # double-precision instability filter: the library computes with 15-digit Floats; if the reference value itself moves
    # when evaluated at 16 digits (e.g. sin(1e12)), the comparison is not decidable at 1e-12 -> inconclusive, never a violation
    try:
        with mpmath.workdps(300):
            v300 = RefEval(g.qreg).ev(sympy.sympify(e))[0]
        if mpmath.isfinite(v) and (not mpmath.isfinite(v300) or abs(v - v300) > mpmath.mpf("1e-30") * max(abs(v), abs(v300))):
            rec.inconc("reference value is precision-sensitive (40 vs 300 digits), e.g. tanh(100)-1")
            return
    except (Refuse, Ambiguous):
        rec.inconc("reference verdict is precision-sensitive (40 vs 300 digits)")
        return
    try:
        with mpmath.workdps(16):
            v16 = RefEval(g.qreg).ev(sympy.sympify(e))[0]
        if mpmath.isfinite(v) and mpmath.isfinite(v16) and abs(v - v16) > mpmath.mpf("1e-13") * max(abs(v), abs(v16)):
            rec.inconc("ill-conditioned in double precision (reference moves between 16 and 40 digits)")
            return
    except (Refuse, Ambiguous):
        pass
    try:
        lsi = units_ref.observed_si_value(q)
        lv_m = sym2mp(lsi)
        if lv_m is None:
            rec.inconc("library value is zoo")
            return
    except Exception as x:  # pylint: disable=broad-except
        rec.inconc("library scale factor not numeric: " + type(x).__name__, case)
        return
    if mpmath.isnan(v) or mpmath.isnan(lv_m):
        if mpmath.isnan(v) != mpmath.isnan(lv_m):
            rec.inconc("nan on one side only")
        return
    if mpmath.isinf(v) or mpmath.isinf(lv_m):
        if isinstance(v, mpmath.mpc) or isinstance(lv_m, mpmath.mpc):
            rec.inconc("complex infinity")
            return
        if not (mpmath.isinf(v) and mpmath.isinf(lv_m)):
            rec.violation("value:inf", f"Quantity({str(e)[:200]}): value {lv_m} vs reference {v}", case)
        return
    scale = max(abs(v), abs(lv_m))
    if scale != 0 and abs(v - lv_m) > mpmath.mpf("1e-12") * scale:
        rec.violation("value", f"Quantity({str(e)[:200]}): SI value {mpmath.nstr(lv_m, 18)} but reference {mpmath.nstr(v, 18)}", case)
        return
    rec.hit("value_compared")
    if v != 0:
        lvec = units_ref.observed_vector(q.dimension)
        if isinstance(lvec, tuple) and lvec and isinstance(lvec[0], str):
            # symbolic / float exponents: compare numerically
            rec.inconc("library dimension has non-rational exponents")
            return
        same = lvec is not None and units_ref.vec_close(lvec, vec)
        rec.hit("dimension_compared")
        if not same:
            rec.violation("dimension", f"Quantity({str(e)[:200]}): dimension {units_ref.vfmt(lvec) if lvec else lvec} but reference {units_ref.vfmt(vec)}", case)
            return
    if len(rec.samples) < 6:
        rec.sample({"expr": str(e)[:160], "si_value": mpmath.nstr(lv_m, 15), "vector": units_ref.vfmt(vec), "label": label})


def plan(tier, seed):
    return _plan_core(tier, seed) + [{"_label": "suite", "kind": "suite", "tier": tier, "_timeout": 2400}]


def _plan_core(tier, seed):
    n = N[tier]
    return [{"_label": f"shard{i}", "seed": seed, "shard": i, "trees": n["trees"] // 16, "depth": n["depth"]} for i in range(16)]


def make_tree(g, r, i, depth, rec=None):
    if i % 8 == 0:
        if rec is not None:
            rec.hit("targeted")
        return g.targeted(), "targeted"
    return g.gen(r.randint(1, depth)), "random"


def work(spec, rec):
    if spec.get("kind") == "suite":
        harness.run_suite("C05", harness.SUITE_QUICK if spec["tier"] == "quick" else harness.SUITE_FULL, rec)
        rec.case(("suite", spec["tier"]))
        return
    r = harness.rng_for("C05", spec["seed"], spec["shard"])
    g = Gen(r, rec)
    only = spec.get("only")
    for i in range(spec["trees"]):
        rec.checkpoint()
        try:
            with harness.Watchdog(8):
                e, label = make_tree(g, r, i, spec["depth"], rec if only is None else None)
        except TimeoutError:
            rec.inconc("watchdog in generator (SymPy canonicalisation of the tree)")
            continue
        except Exception:  # pylint: disable=broad-except
            rec.add("generator_exceptions")  # SymPy refused to build the tree (e.g. Min of complex): not an input
            continue
        if only is not None and i != only:
            continue
        try:
            with harness.Watchdog(30):
                check_tree(e, g, rec, label, {"seed": spec["seed"], "shard": spec["shard"], "index": i, "depth": spec["depth"]})
        except TimeoutError:
            rec.inconc("watchdog around the whole case (printing/evaluating a huge constant)")
        if only is not None:
            rec.note(f"replayed tree #{i}: {str(e)[:400]}")
            break
    rec.extra["units_used"] = sorted(g.used_units)


def finalize(merged, tier, seed, results):
    used = set(merged["extra"].get("units_used", []))
    merged["extra"]["units_used"] = len(used)
    return {"unit_pool": len(units_ref.available_units())}


def replay(case, rec):
    o = case["origin"]
    work({"seed": o["seed"], "shard": o["shard"], "trees": o["index"] + 1, "depth": o["depth"], "only": o["index"]}, rec)
