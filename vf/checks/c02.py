"""C02 - calculation functions return solutions of the law they belong to.
Workload: every calculate_* of the working tree called on seeded admissible argument tuples in random unit spellings.
Monitor: arguments and return value of the real function.
Oracle: conditioning-aware high-precision re-solution of the module's published equation (guard specs recovered from the
decorator closures give parameter -> symbol and result -> symbol); documented abs/ceil exceptions from a committed table;
unit-spelling metamorphic relation."""
from __future__ import annotations

import inspect
import json
import os
from fractions import Fraction as Fr

import mpmath

from vf import catalogue, harness

RULE = ("for every calculate_* function whose guards map every parameter and the result to a symbol of the module's published "
        "law/definition (algebraic equation, no undefined functions/derivatives): seeded argument tuples (magnitudes "
        "log-uniform in [0.2,5] quick / [1e-3,1e3] thorough, a quarter over [1e-6,1e6], random SI prefixes, negative values "
        "where the symbol is not declared positive); the returned value r is compared with the root r* of the law (50 digits, "
        "Newton from r, exact rational inputs) to 1e-6 relative, after a conditioning filter (inputs perturbed by 1e-13) and a "
        "double-precision-instability filter; functions listed in vf/data/c02_exceptions.json must return abs/ceil of r* "
        "(ceil functions are also driven to solutions just above integers); every tuple is re-spelled in other prefixes and "
        "must give the same SI result. Functions outside this shape are listed as uncovered(reason). non-trivial = at least two "
        "arguments differ from 1; distinct = (function, tuple).")
RULE = RULE + ' Also: all-negative and one mixed sign pattern per covered function (verdict only where the function returns a real value and the law has a root for those arguments); laws over indexed sums/products (18 functions) called with sequences of length 1..5 and checked against the law written out with own expansion; vector laws offered for several unknowns (14 pairs) and law-level inverse pairs (74) must be mutual inverses.'
ASSUMPTIONS = ["decorator closures expose the guard specifications (closure introspection)",
               "scale factors form a coherent unit system (gram-metre-second), so the law can be evaluated on scale factors",
               "mpmath.findroot from the returned value finds the root the function aimed at",
               "vf/data/c02_exceptions.json lists the functions documented to return a magnitude or a rounded-up integer"]
N = {"quick": 3, "thorough": 12}
MIN_REACH = {"quick": {"vector_roundtrips": 60, "law_roundtrips": 80, "functions_covered": 400, "calls_compared": 1000, "respelled": 800, "ceil_near_integer": 5, "sign_patterns_compared": 400, "indexed_functions_covered": 15, "indexed_calls_compared": 80},
             "thorough": {"functions_covered": 400, "calls_compared": 4000}}
SHARD_TIMEOUT = {"quick": 900, "thorough": 3300}
mpmath.mp.dps = 50


def plan(tier, seed):
    names = catalogue.module_names()
    k = 32
    return [{"_label": "vector-pairs", "kind": "vectors", "seed": seed, "draws": 6 if tier == "quick" else 40},
            {"_label": "indexed-laws", "kind": "indexed", "seed": seed, "tuples": 6 if tier == "quick" else 60}] + [{"_label": f"mods{i}", "modules": names[i::k], "seed": seed, "tuples": N[tier], "tier": tier} for i in range(k)]


def load_exceptions():
    p = os.path.join(harness.HOME, "vf", "data", "c02_exceptions.json")
    try:
        with open(p) as f:
            return json.load(f)["functions"]
    except FileNotFoundError:
        return {}


def to_mp(x):
    import sympy
    x = sympy.sympify(x)
    if x.is_Rational:
        return mpmath.mpf(int(x.p)) / int(x.q)
    v = sympy.N(x, 50)
    re_, im_ = v.as_real_imag()
    def one(p):
        p = sympy.N(p, 50)
        return mpmath.mpf(int(p.p)) / int(p.q) if p.is_Rational else mpmath.mpf(p._mpf_)
    return one(re_) if im_ == 0 else mpmath.mpc(one(re_), one(im_))


def classify(mod, fname, func):
    """-> (mapping dict, reason-if-uncovered)"""
    import sympy
    from sympy.core.function import AppliedUndef
    from sympy.physics.units import Quantity as SymQuantity
    from symplyphysics.core.symbols.symbols import Symbol, IndexedSymbol, Function
    law = getattr(mod, "law", None)
    if law is None:
        law = getattr(mod, "definition", None)
    if not isinstance(law, sympy.Equality):
        return None, "module has no single law/definition Equality"
    g = catalogue.guard_specs(func)
    if not g["layers"]:
        return None, "undecorated"
    inner = g["inner"]
    params = list(inspect.signature(inner).parameters)
    if law.atoms(AppliedUndef) or law.has(sympy.Derivative, sympy.Integral, sympy.Sum) or law.atoms(sympy.Indexed) or law.has(sympy.MatrixBase):
        return None, "law over undefined functions / derivatives / integrals / indexed sums / matrices"
    free = [s for s in law.free_symbols if not isinstance(s, SymQuantity)]
    attr_syms = {k: v for k, v in vars(mod).items() if isinstance(v, Symbol) and not isinstance(v, SymQuantity)}
    pmap = {}
    for p in params:
        spec = g["inputs"].get(p)
        if isinstance(spec, Symbol) and spec in free:
            pmap[p] = spec
            continue
        cand = attr_syms.get(p.rstrip("_"))
        if cand is not None and cand in free:
            pmap[p] = cand
            continue
        return None, f"parameter {p} not mappable to a law symbol"
    if len(set(pmap.values())) != len(pmap):
        return None, "two parameters map to one symbol"
    out = g["output"]
    unm = [s for s in free if s not in pmap.values()]
    if isinstance(out, Symbol) and out in unm:
        osym = out
    elif len(unm) == 1:
        osym = unm[0]
    else:
        return None, f"result symbol not identifiable ({len(unm)} unmapped symbols)"
    if [s for s in unm if s is not osym]:
        return None, "law has further unmapped symbols"
    if isinstance(out, Symbol) and out in pmap.values():
        return None, "guard symbols ambiguous (a parameter is guarded by the result symbol)"
    dims = {}
    for p in params:
        if p not in g["inputs"]:
            # unguarded parameter (e.g. with validate_output_same): the dimension of its law symbol is used for the arguments
            d = getattr(pmap[p], "dimension", None)
            if d is None or type(d).__name__ == "AnyDimension":
                from sympy.physics import units as _u
                d = _u.length  # wildcard symbol: any dimension will do, a length is used
            dims[p] = d
            continue
        if isinstance(catalogue.spec_dimension(g["inputs"][p]), list):
            return None, "sequence parameter"
        dims[p] = catalogue.spec_dimension(g["inputs"][p])
    return {"law": law, "pmap": pmap, "out": osym, "guards": g, "params": params, "dims": dims}, None


def make_args(r, info, wide, allow_negative=True, floats=False):
    """-> (kwargs of Quantities, exact scale factors per symbol, description)"""
    import sympy
    from symplyphysics import Quantity
    from symplyphysics.core.dimensions import dimension_to_si_unit
    kwargs, desc = {}, {}
    for p in info["params"]:
        sym = info["pmap"][p]
        dim = info["dims"][p]
        lo, hi = (1e-6, 1e6) if wide == "very" else ((1e-3, 1e3) if wide else (0.2, 5))
        import math
        mag = math.exp(r.uniform(math.log(lo), math.log(hi)))
        mag = Fr(mag).limit_denominator(10**9)
        # negative magnitudes are not generated: most catalogue symbols are physically non-negative without being declared
        # so (temperature, frequency, density...), and exp(-E/kT) at T<0 produces numbers with 1e20 digits
        pre = r.choice([0, 0, 0, 3, -3, 6, -2])
        unit = dimension_to_si_unit(dim)
        val = sympy.Rational(mag.numerator, mag.denominator)
        if floats:
            val = sympy.Float(float(mag))   # arguments given as floats (the reference uses the exact value of that float)
        q = Quantity(val * sympy.Integer(10) ** pre * unit) if unit != 1 else Quantity(val)
        kwargs[p] = q
        desc[p] = f"{float(mag):.6g}e{pre} {unit}"
    return kwargs, desc


def respell(r, kwargs, info):
    """same physical values, other spelling: value*1000 x milli-unit, or value/1000 x kilo-unit"""
    import sympy
    from sympy.physics.units import prefixes as P
    from symplyphysics import Quantity
    from symplyphysics.core.dimensions import dimension_to_si_unit
    out = {}
    for p, q in kwargs.items():
        dim = info["dims"][p]
        unit = dimension_to_si_unit(dim)
        if unit == 1:
            out[p] = Quantity(sympy.Rational(1, 1000) * (q.scale_factor * 1000))
            continue
        base = Quantity(unit)
        ratio = sympy.nsimplify(q.scale_factor / base.scale_factor, rational=True)
        if r.random() < 0.5:
            out[p] = Quantity(ratio * 1000 * P.milli * unit)
        else:
            out[p] = Quantity(ratio / 1000 * P.kilo * unit)
    return out


def solve_reference(info, kwargs, r_obs, perturb=None, dps=50):
    """root of the law near r_obs with exact inputs; returns mp number or raises"""
    import sympy
    from sympy.physics.units import Quantity as SymQuantity
    law, out = info["law"], info["out"]
    sub = {}
    for p, q in kwargs.items():
        v = sympy.nsimplify(q.scale_factor, rational=True) if not sympy.sympify(q.scale_factor).is_Rational else sympy.sympify(q.scale_factor)
        if perturb:
            v = v * (1 + sympy.Rational(perturb[p]))
        sub[info["pmap"][p]] = v
    expr = (law.lhs - law.rhs)
    qs = {q: sympy.nsimplify(q.scale_factor, rational=True) for q in expr.atoms(SymQuantity)}
    expr = expr.xreplace(qs).xreplace(sub)
    with mpmath.workdps(dps):
        z = sympy.Symbol("z_unknown")  # (library symbols print by display name, which breaks lambdify's argument list)
        f = sympy.lambdify(z, expr.xreplace({out: z}), "mpmath")
        x0 = r_obs
        try:
            root = mpmath.findroot(f, x0, tol=mpmath.mpf(10) ** (-(dps - 10)), maxsteps=60)
        except Exception:  # pylint: disable=broad-except
            raise
        return root


def float_unstable(info, kwargs, rstar, tol):
    """does the explicit form of the law, evaluated in IEEE doubles (what the library's Float arithmetic amounts to), miss the
    50-digit solution?  (e.g. exp(x) - 1 at x = 1e-13) - a limitation of float evaluation, not a wrong solution"""
    import cmath
    import sympy
    from sympy.physics.units import Quantity as SymQuantity
    law, out = info["law"], info["out"]
    expr = law.rhs if law.lhs == out else (law.lhs if law.rhs == out else None)
    if expr is None or expr.has(out):
        return False
    try:
        syms = [info["pmap"][p] for p in kwargs]
        plain = [sympy.Symbol(f"a{i}") for i in range(len(syms))]
        qs = {q: sympy.Float(float(sympy.N(q.scale_factor))) for q in expr.atoms(SymQuantity)}
        cm = {n: getattr(cmath, n) for n in ("sqrt", "exp", "log", "sin", "cos", "tan", "asin", "acos", "atan", "sinh", "cosh", "tanh",
                                             "asinh", "acosh", "atanh")}
        f = sympy.lambdify(plain, expr.xreplace(qs).xreplace(dict(zip(syms, plain))), modules=[cm, "math"])
        v = f(*[complex(sympy.N(kwargs[p].scale_factor)) for p in kwargs])
        r = complex(rstar)
        return abs(v - r) > float(tol) * max(abs(v), abs(r))
    except Exception:  # pylint: disable=broad-except
        return False


def rel_close(a, b, tol):
    return abs(a - b) <= tol * max(abs(a), abs(b)) or abs(a - b) <= mpmath.mpf("1e-300")


def result_value(res):
    from sympy.physics.units import Quantity as SymQuantity
    import sympy
    if isinstance(res, SymQuantity):
        return to_mp(res.scale_factor)
    return to_mp(sympy.sympify(res))


def check_function(r, rec, mod, fname, func, info, tuples, tier, exceptions):
    import sympy
    short = mod.__name__.split("symplyphysics.")[-1]
    key = f"{short}.{fname}"
    exc = exceptions.get(key)
    held = 0
    refused = 0
    for t in range(tuples):
        wide = "very" if t % 4 == 3 else (tier == "thorough")
        for attempt in range(4):
            try:
                kwargs, desc = make_args(r, info, wide if attempt < 2 else False, allow_negative=attempt == 0, floats=(t % 3 == 1))
                if t % 3 == 1:
                    rec.hit("float_arguments")
            except Exception as e:  # pylint: disable=broad-except
                rec.inconc("cannot build arguments: " + type(e).__name__)
                return
            case = {"function": key, "arguments": desc}
            try:
                with harness.Watchdog(30):
                    res = func(**kwargs)
            except TimeoutError:
                rec.inconc("watchdog in calculate function", {"function": key})
                break
            except Exception:  # pylint: disable=broad-except
                refused += 1
                continue   # domain refusal: re-draw
            try:
                rv = result_value(res)
            except Exception:  # pylint: disable=broad-except
                rec.add("non_scalar_results")
                break
            try:
                with harness.Watchdog(20):
                    op = (exc or {}).get("op")
                    guess = rv
                    rstar = solve_reference(info, kwargs, guess)
                    if op == "abs" and not rel_close(rv, rstar, mpmath.mpf("1e-6")):
                        rstar = solve_reference(info, kwargs, -rv)
                    pert = {p: Fr(r.choice([1, -1]), 10**13) for p in kwargs}
                    rpert = solve_reference(info, kwargs, rstar, perturb=pert)
                    r15 = solve_reference(info, kwargs, rstar, dps=15)
            except TimeoutError:
                rec.inconc("watchdog in reference solution", {"function": key})
                break
            except Exception as e:  # pylint: disable=broad-except
                rec.add("reference_not_solvable")
                break
            tol = mpmath.mpf("1e-6")
            if op == "ceil":
                want = mpmath.ceil(mpmath.re(rstar))
                frac_margin = abs(mpmath.re(rstar) - mpmath.nint(mpmath.re(rstar)))
                if frac_margin < mpmath.mpf("1e-9"):
                    rec.add("ceil_at_integer_skipped")
                    break
                ok = rel_close(rv, want, mpmath.mpf("1e-9"))
                wanted_desc = f"ceil({mpmath.nstr(rstar, 12)}) = {want}"
            else:
                if not rel_close(rstar, rpert, tol / 10):
                    rec.add("ill_conditioned_redrawn")
                    continue
                if not rel_close(rstar, r15, tol / 10) or float_unstable(info, kwargs, rstar, tol / 10):
                    rec.add("double_precision_unstable_redrawn")
                    continue
                want = abs(rstar) if op == "abs" else rstar
                ok = rel_close(rv, want, tol)
                wanted_desc = f"{'|' if op == 'abs' else ''}{mpmath.nstr(rstar, 12)}{'|' if op == 'abs' else ''}"
            rec.hit("calls_compared")
            rec.case((key, sorted(desc.items())), nontrivial=True)
            if not ok:
                rec.violation(f"not-a-solution:{key}", f"{key}({desc}) returned {mpmath.nstr(rv, 15)} but the law {info['law']} is solved by {wanted_desc}", case)
                return
            held += 1
            # unit-spelling metamorphic relation
            try:
                with harness.Watchdog(60):
                    res2 = func(**respell(r, kwargs, info))
                rv2 = result_value(res2)
                rec.hit("respelled")
                # (exact rational arguments: 1e-9; arguments given as floats are re-spelled with a last-bit difference, which
                #  cancellation inside the formula - 1 - exp(-x) at tiny x - amplifies: the tolerance of the law comparison)
                if not rel_close(rv, rv2, mpmath.mpf("1e-9") if t % 3 != 1 else tol):
                    rec.violation(f"unit-spelling:{key}", f"{key}: same physical arguments written with other prefixes give {mpmath.nstr(rv2, 15)} instead of {mpmath.nstr(rv, 15)}", case)
                    return
            except TimeoutError:
                pass
            except Exception as e:  # pylint: disable=broad-except
                rec.violation(f"unit-spelling-raises:{key}", f"{key}: re-spelled arguments raise {type(e).__name__}: {str(e)[:100]}", case)
                return
            if len(rec.samples) < 3:
                rec.sample(dict(case, returned=mpmath.nstr(rv, 12), law_root=mpmath.nstr(rstar, 12)))
            break
    if held and not exc:
        sign_patterns(r, rec, func, info, key)
    import sympy as _sp
    if info["law"].has(_sp.Piecewise):
        piecewise_boundary(r, rec, func, info, key)
    if exc and exc.get("op") == "ceil":
        ceil_near_integer(r, rec, func, info, key)
    if exc and exc.get("op") == "abs" and exc.get("signs", True):
        abs_with_signs(r, rec, func, info, key)
    if held:
        rec.hit("functions_covered")
    elif refused:
        rec.inconc("function refuses every drawn tuple", {"function": key})


def sign_patterns(r, rec, func, info, key):
    """'whatever the magnitudes': all arguments negative, and one random mixed pattern (moderate magnitudes). Counted only
    when the function returns a real finite value and the law has a root next to it or next to its negative; a function
    that refuses the arguments, or a law without solution for them, decides nothing."""
    from symplyphysics import Quantity
    try:
        kwargs, desc = make_args(r, info, False)
    except Exception:  # pylint: disable=broad-except
        return
    names = list(kwargs)
    pats = [tuple(-1 for _ in names)]
    if len(names) > 1:
        pats.append(tuple(r.choice((1, -1)) for _ in names))
    for signs in pats:
        if all(s_ == 1 for s_ in signs):
            continue
        kw = {n_: (Quantity(-1 * kwargs[n_]) if s_ == -1 else kwargs[n_]) for n_, s_ in zip(names, signs)}
        case = {"function": key, "arguments": desc, "signs": list(signs)}
        try:
            with harness.Watchdog(20):
                res = func(**kw)
                rv = result_value(res)
                if not mpmath.isfinite(rv) or abs(mpmath.im(rv)) > mpmath.mpf("1e-12"):
                    rec.add("sign_pattern_result_not_real")
                    continue
                rstar = solve_reference(info, kw, rv)
                pert = {p: Fr(r.choice([1, -1]), 10**13) for p in kw}
                rpert = solve_reference(info, kw, rstar, perturb=pert)
                r15 = solve_reference(info, kw, rstar, dps=15)
                unstable = not rel_close(rstar, r15, mpmath.mpf("1e-7")) or float_unstable(info, kw, rstar, mpmath.mpf("1e-7"))
        except TimeoutError:
            rec.add("sign_pattern_watchdog")
            continue
        except Exception:  # pylint: disable=broad-except
            rec.add("sign_pattern_refused_or_unsolved")
            continue
        if abs(mpmath.im(rstar)) > mpmath.mpf("1e-12") * max(1, abs(rstar)) or not rel_close(rstar, rpert, mpmath.mpf("1e-7")):
            rec.add("sign_pattern_reference_complex_or_ill_conditioned")
            continue
        if unstable:
            rec.add("sign_pattern_double_precision_unstable")   # (exp(x) - 1 at tiny x: a limit of float evaluation, as in the main path)
            continue
        rec.hit("sign_patterns_compared")
        rec.case((key, "signs", signs), nontrivial=True)
        if not rel_close(rv, rstar, mpmath.mpf("1e-6")):
            rec.violation(f"not-a-solution:negative-arguments:{key}", f"{key}({desc}) with argument signs {signs} returned {mpmath.nstr(rv, 15)} but the law {info['law']} is solved by {mpmath.nstr(rstar, 12)}", case)
            return


def piecewise_boundary(r, rec, func, info, key):
    """laws with conditions (Piecewise): arguments exactly on the boundary of a condition between two parameters (equal
    values, written in different units), just inside and just outside; the expected value is the law's right-hand side
    evaluated with exact rationals by SymPy's own Piecewise (no library quantities involved)"""
    import sympy
    from sympy.core.relational import Relational
    from symplyphysics import Quantity
    from symplyphysics.core.dimensions import dimension_to_si_unit
    from sympy.physics.units import prefixes as P
    law, out = info["law"], info["out"]
    if law.lhs != out:
        return
    inv = {v: k for k, v in info["pmap"].items()}
    for rel in law.atoms(Relational):
        if rel == law or not (rel.lhs in inv and rel.rhs in inv):
            continue
        pa, pb = inv[rel.lhs], inv[rel.rhs]
        for ratio in (sympy.Integer(1), sympy.Rational(999999, 1000000), sympy.Rational(1000001, 1000000), sympy.Integer(2), sympy.Rational(1, 2)):
            try:
                kwargs, desc = make_args(r, info, False)
            except Exception:  # pylint: disable=broad-except
                return
            unit = dimension_to_si_unit(info["dims"][pb])
            base = Quantity(unit).scale_factor if unit != 1 else 1
            si_b = sympy.nsimplify(kwargs[pb].scale_factor, rational=True)
            val_a = si_b * ratio / sympy.nsimplify(base, rational=True)
            # the same kind of value in another spelling: value*1000 x milli-unit
            kwargs[pa] = Quantity(val_a * 1000 * P.milli * unit) if unit != 1 else Quantity(val_a)
            sub = {info["pmap"][p]: sympy.nsimplify(q.scale_factor, rational=True) for p, q in kwargs.items()}
            case = {"function": key, "arguments": {p: str(q.scale_factor) for p, q in kwargs.items()}, "condition": str(rel), "ratio": str(ratio)}
            try:
                want = sympy.sympify(law.rhs).xreplace(sub)
                want = sympy.piecewise_fold(want) if want.has(sympy.Piecewise) else want
                if want.has(sympy.Piecewise) or not want.is_number:
                    rec.add("piecewise_reference_undecided")
                    continue
                with harness.Watchdog(30):
                    res = func(**kwargs)
                rv = sympy.sympify(res.scale_factor if hasattr(res, "scale_factor") else res)
            except TimeoutError:
                rec.add("piecewise_watchdog")
                continue
            except Exception:  # pylint: disable=broad-except
                rec.add("piecewise_refused")
                continue
            rec.hit("piecewise_boundary_compared")
            rec.case((key, "boundary", str(rel), str(ratio)), nontrivial=True)
            same = (want == rv) if (want.is_infinite or rv.is_infinite) else rel_close(to_mp(rv), to_mp(want), mpmath.mpf("1e-6"))
            if not same:
                rec.violation(f"not-a-solution:condition-boundary:{key}", f"{key} with {pa} = {ratio} x {pb} ({rel}) returned {rv} but the law {law} gives {want}", case)
                return


def abs_with_signs(r, rec, func, info, key):
    """a function documented to return a magnitude: every sign pattern of the arguments must give |solution|"""
    import itertools
    import sympy
    from symplyphysics import Quantity
    kwargs, desc = make_args(r, info, False)
    names = list(kwargs)
    for signs in itertools.product((1, -1), repeat=len(names)):
        if all(s_ == 1 for s_ in signs):
            continue
        kw = {}
        for n_, s_ in zip(names, signs):
            q = kwargs[n_]
            kw[n_] = Quantity(s_ * q) if s_ == -1 else q
        case = {"function": key, "arguments": desc, "signs": list(signs)}
        try:
            with harness.Watchdog(60):
                res = func(**kw)
            rv = result_value(res)
            rstar = solve_reference(info, kw, rv)
            if not rel_close(rv, abs(rstar), mpmath.mpf("1e-6")):
                rstar = solve_reference(info, kw, -rv)
        except Exception:  # pylint: disable=broad-except
            rec.add("abs_sign_pattern_refused_or_unsolved")
            continue
        rec.hit("abs_sign_patterns")
        rec.case((key, "signs", signs))
        if not rel_close(rv, abs(rstar), mpmath.mpf("1e-6")):
            rec.violation(f"not-a-magnitude:{key}", f"{key} with argument signs {signs} returned {mpmath.nstr(rv, 12)} but the law is solved by {mpmath.nstr(rstar, 12)} (expected its magnitude)", case)
            return


def ceil_near_integer(r, rec, func, info, key):
    """drive a rounded-up-integer function to solutions just above an integer"""
    import sympy
    from symplyphysics import Quantity
    from symplyphysics.core.dimensions import dimension_to_si_unit
    law, out = info["law"], info["out"]
    for delta in ("1e-5", "3e-4", "8e-4", "2e-3"):
        for attempt in range(6):
            kwargs, desc = make_args(r, info, False, allow_negative=False)
            p0 = r.choice(info["params"])
            target = r.randint(2, 8) + mpmath.mpf(delta)
            # solve the law for the value of p0 that makes the solution equal to target
            sub = {info["pmap"][p]: sympy.nsimplify(q.scale_factor, rational=True) for p, q in kwargs.items() if p != p0}
            expr = (law.lhs - law.rhs).xreplace(sub).xreplace({out: sympy.Float(str(target), 40)})
            sym0 = info["pmap"][p0]
            try:
                z0 = sympy.Symbol("z_param")
                f = sympy.lambdify(z0, expr.xreplace({sym0: z0}), "mpmath")
                x0 = to_mp(kwargs[p0].scale_factor)
                val = mpmath.findroot(f, x0, tol=mpmath.mpf("1e-40"))
                if mpmath.im(val) != 0 or mpmath.re(val) <= 0:
                    continue
                dim = info["dims"][p0]
                unit = dimension_to_si_unit(dim)
                base = Quantity(unit).scale_factor if unit != 1 else 1
                fr = sympy.Rational(str(mpmath.nstr(mpmath.re(val), 30))) / sympy.nsimplify(base, rational=True)
                kwargs[p0] = Quantity(fr * unit) if unit != 1 else Quantity(fr)
                with harness.Watchdog(30):
                    res = func(**kwargs)
                rv = result_value(res)
                rstar = solve_reference(info, kwargs, target)
            except Exception:  # pylint: disable=broad-except
                continue
            if abs(rstar - target) > mpmath.mpf("1e-7"):
                continue
            rec.hit("ceil_near_integer")
            want = mpmath.ceil(mpmath.re(rstar))
            rec.case((key, "near-integer", delta, attempt))
            if not rel_close(rv, want, mpmath.mpf("1e-9")):
                rec.violation(f"not-rounded-up:{key}", f"{key}: law solved by {mpmath.nstr(rstar, 12)} (just above an integer) but the function returned {mpmath.nstr(rv, 12)} instead of {want}", {"function": key, "delta": delta})
                return
            break


def vector_info(func):
    from vf import units_ref
    from vf.checks import c04
    g = catalogue.guard_specs(func)
    if "input" not in g["layers"]:
        return None
    inner = g["inner"]
    params = list(inspect.signature(inner).parameters)
    if any(p not in g["inputs"] for p in params):
        return None
    kinds = {p: c04.kind_of_param(inner, p) for p in params}
    dims = {}
    for p in params:
        d = catalogue.spec_dimension(g["inputs"][p])
        dims[p] = None if isinstance(d, list) else units_ref.observed_vector(d)
    out = g["output"]
    od = None
    if out is not None and not isinstance(catalogue.spec_dimension(out), list):
        od = units_ref.observed_vector(catalogue.spec_dimension(out))
    return {"params": params, "kinds": kinds, "dims": dims, "out": od, "ret": str(inspect.signature(inner).return_annotation), "g": g}


def vector_pairs_work(spec, rec):
    """where a vector law is offered solved for different unknowns, the forms are mutual inverses"""
    import itertools
    import sympy
    import symplyphysics  # noqa
    from symplyphysics import Quantity, QuantityVector
    from symplyphysics.core.dimensions import dimension_to_si_unit
    r = harness.rng_for("C02v", spec["seed"])
    with open(os.path.join(harness.HOME, "vf", "data", "c02_vector_pairs.json")) as f:
        table = {(p["module"], p["f"], p["g"]) for p in json.load(f)["pairs"]}
    found = set()
    for name in catalogue.module_names():
        if ".vector" not in name and "vector" not in name.rsplit(".", 1)[-1]:
            continue
        try:
            mod = catalogue.import_module(name)
        except Exception:  # pylint: disable=broad-except
            continue
        fs = []
        for k, f in catalogue.functions(mod):
            if k.startswith("calculate"):
                i = vector_info(f)
                if i and "QuantityVector" in i["ret"]:
                    fs.append((k, f, i))
        for (k1, f1, i1), (k2, f2, i2) in itertools.permutations(fs, 2):
            v1 = [p for p in i1["params"] if i1["kinds"][p] == "vector"]
            v2 = [p for p in i2["params"] if i2["kinds"][p] == "vector"]
            s1 = {p: i1["dims"][p] for p in i1["params"] if p not in v1}
            s2 = {p: i2["dims"][p] for p in i2["params"] if p not in v2}
            if not (len(v1) == 1 and len(v2) == 1 and s1 == s2 and i1["out"] is not None and i1["out"] == i2["dims"][v2[0]] and i2["out"] == i1["dims"][v1[0]]):
                continue
            found.add((name, k1, k2))
            short = name.split("symplyphysics.")[-1]
            for t in range(spec["draws"]):
                kw = {}
                ncomp = r.choice([3, 3, 2, 1])
                for p in i1["params"]:
                    d = catalogue.spec_dimension(i1["g"]["inputs"][p])
                    u = dimension_to_si_unit(d)
                    pre = sympy.Integer(10) ** r.choice([0, 0, 3, -3])
                    if p == v1[0]:
                        kw[p] = QuantityVector([Quantity(sympy.Rational(r.randint(-50, 50) or 3, 7) * pre * u) for _ in range(ncomp)])
                    else:
                        kw[p] = Quantity(sympy.Rational(r.randint(3, 40), 7) * pre * u)
                case = {"module": name, "f": k1, "g": k2, "arguments": {p: str([str(c) for c in v.components]) if hasattr(v, "components") else str(v) for p, v in kw.items()}}
                try:
                    with harness.Watchdog(60):
                        y = f1(**kw)
                        kw2 = {p: v for p, v in kw.items() if p != v1[0]}
                        kw2[v2[0]] = y
                        x = f2(**kw2)
                except TimeoutError:
                    rec.inconc("watchdog in vector pair")
                    continue
                except Exception as e:  # pylint: disable=broad-except
                    rec.violation(f"vector-pair-raises:{short}.{k1}->{k2}", f"{short}: {k2}({k1}(v)) raised {type(e).__name__}: {str(e)[:100]}", case)
                    break
                a = [complex(sympy.N(c.scale_factor, 30)) for c in x.components]
                b = [complex(sympy.N(c.scale_factor, 30)) for c in kw[v1[0]].components]
                a += [0j] * (3 - len(a))
                b += [0j] * (3 - len(b))
                rec.hit("vector_roundtrips")
                rec.case(("vector-pair", short, k1, k2, t))
                if not all(abs(u_ - v_) <= 1e-9 * max(abs(v_), 1e-300) or abs(u_ - v_) < 1e-300 for u_, v_ in zip(a, b)):
                    rec.violation(f"vector-pair-not-inverse:{short}.{k1}->{k2}", f"{short}: {k2}({k1}(v)) = {a} but v = {b}", case)
                    break
    for m in sorted(table - found):
        rec.inconc("reviewed vector pair no longer offered by the module", {"pair": list(m)})
    rec.extra["vector_pairs"] = len(found)
    # law-level inverse forms (plain Vector functions *_law / *_definition): table derived on the unchanged tree
    from symplyphysics import Vector
    with open(os.path.join(harness.HOME, "vf", "data", "c02_law_pairs.json")) as f:
        law_pairs = json.load(f)["law_pairs"]
    for lp in law_pairs:
        short = lp["module"].split("symplyphysics.")[-1]
        try:
            mod = catalogue.import_module(lp["module"])
            f_, g_ = getattr(mod, lp["f"]), getattr(mod, lp["g"])
        except Exception:  # pylint: disable=broad-except
            rec.inconc("reviewed law pair no longer offered by the module", {"pair": [lp["module"], lp["f"], lp["g"]]})
            continue
        nf = len(inspect.signature(f_).parameters)
        for t in range(max(2, spec["draws"] // 2)):
            lens = [r.choice([3, 3, 2, 1]) for _ in range(nf)]
            if t == 0 and nf >= 2:
                lens = [1] + [3] * (nf - 1)   # shorter operand on the left
            xs = [Vector([sympy.Rational(r.randint(-40, 40) or 7, r.randint(1, 6)) for _ in range(n)]) for n in lens]
            case = {"module": lp["module"], "f": lp["f"], "g": lp["g"], "vectors": [[str(c) for c in x.components] for x in xs]}
            try:
                with harness.Watchdog(60):
                    y = f_(*xs)
                    args = [None] * nf
                    it = iter(lp["others"])
                    for j in range(nf):
                        args[j] = y if j == lp["y_slot"] else xs[next(it)]
                    z = g_(*args)
            except TimeoutError:
                rec.inconc("watchdog in law pair")
                continue
            except Exception as e:  # pylint: disable=broad-except
                rec.violation(f"law-pair-raises:{short}.{lp['f']}->{lp['g']}", f"{short}: {lp['g']}(.., {lp['f']}(..)) raised {type(e).__name__}: {str(e)[:100]}", case)
                break
            want = xs[lp["left_out"]]
            cz = list(z.components) + [0] * (3 - len(z.components))
            cw = list(want.components) + [0] * (3 - len(want.components))
            rec.hit("law_roundtrips")
            rec.case(("law-pair", short, lp["f"], lp["g"], t))
            if not all(sympy.simplify(a_ - b_) == 0 for a_, b_ in zip(cz, cw)):
                rec.violation(f"law-pair-not-inverse:{short}.{lp['f']}->{lp['g']}", f"{short}: {lp['g']} applied to {lp['f']}(..) gives {[str(c) for c in cz]}, expected {[str(c) for c in cw]}", case)
                break


def expand_indexed(expr, n):
    """IndexedSum(f, i) / IndexedProduct(f, i) written out for i = 1..n with plain SymPy (no library code)"""
    import sympy
    def rec_(e):
        name = type(e).__name__
        if name in ("IndexedSum", "IndexedProduct"):
            f, idx = e.args[0], e.args[1]
            f = rec_(f)
            terms = [f.subs(idx, j) for j in range(1, n + 1)]
            return sympy.Add(*terms) if name == "IndexedSum" else sympy.Mul(*terms)
        if e.args:
            return e.func(*[rec_(a) for a in e.args])
        return e
    return rec_(expr)


def indexed_laws_work(spec, rec):
    """laws over indexed symbols (sums/products over a sequence): the calculation function is called with sequences of length
    1..5; the law, written out for that length with own expansion, must hold for the arguments and the returned value
    (returned value = the scalar result, or - where the guards declare the result to be an element - the missing element)."""
    import inspect
    import sympy
    import symplyphysics  # noqa pylint: disable=unused-import
    from sympy.physics.units import Quantity as SymQuantity
    from symplyphysics import Quantity
    from symplyphysics.core.dimensions import dimension_to_si_unit
    from symplyphysics.core.symbols.probability import Probability
    r = harness.rng_for("C02", spec["seed"], "indexed")
    for name in catalogue.module_names():
        try:
            mod = catalogue.import_module(name)
        except Exception:  # pylint: disable=broad-except
            continue
        law = getattr(mod, "law", None)
        if law is None:
            law = getattr(mod, "definition", None)
        if not isinstance(law, sympy.Equality) or not any(type(n_).__name__ in ("IndexedSum", "IndexedProduct") for n_ in sympy.preorder_traversal(law)):
            continue
        if law.has(sympy.Derivative, sympy.Integral):
            continue
        bases = []
        for n_ in sympy.preorder_traversal(law):
            if isinstance(n_, sympy.Indexed) and n_.base not in bases:
                bases.append(n_.base)
        short = name.split("symplyphysics.")[-1]
        for fname, func in catalogue.functions(mod):
            if not fname.startswith("calculate"):
                continue
            key = f"{short}.{fname}"
            g = catalogue.guard_specs(func)
            sig = inspect.signature(g["inner"])
            params = list(sig.parameters)
            rec.hit("indexed_functions_seen")
            # which parameter carries which indexed base
            layout = None
            if len(params) == 1 and params[0] in g["inputs"] and g["inputs"][params[0]] in bases:
                layout = [g["inputs"][params[0]]]
                pairs = False
            elif len(params) == 1 and "tuple" in str(sig.parameters[params[0]].annotation) and len(bases) == 2:
                layout, pairs = list(bases), True
            if layout is None:
                rec.add("indexed_function_shape_not_covered")
                continue
            out_spec = g.get("output")
            if not isinstance(out_spec, sympy.Basic) or isinstance(out_spec, sympy.physics.units.Dimension):
                # result declared by dimension only: the scalar on the left of the law, or the missing element of `... = 0`
                if isinstance(law.lhs, sympy.Symbol) and law.lhs not in bases:
                    out_spec = law.lhs
                elif law.rhs == 0 and len(bases) == 1:
                    out_spec = bases[0]
            closed = out_spec in bases   # result is the missing element of the sequence
            for t in range(spec["tuples"]):
                n = r.randint(1, 5)
                ann = str(sig.parameters[params[0]].annotation)
                ints = "int" in ann or ("float" in ann and "Quantity" not in ann)   # plain numbers: whole numbers are used
                seqs = {}
                args_cols = []
                for bi, base in enumerate(layout):
                    dim = getattr(base, "dimension", None)
                    unit = dimension_to_si_unit(dim) if dim is not None else 1
                    col_vals, col_args = [], []
                    is_prob = pairs and bi == 0
                    is_count = (pairs and bi == 1) or (ints and not pairs)
                    if is_prob:
                        raw = [r.uniform(0.1, 1) for _ in range(n)]
                        tot = sum(raw)
                        vals = [round(v / tot, 4) for v in raw]   # a four-decimal table: sums to 1 within the accepted tolerance only
                        if t % 2 == 0:   # tabulated values rarely add up exactly: off by up to 5e-4 (the function accepts 1e-3)
                            j_ = r.randrange(n)
                            vals[j_] = round(min(1.0, max(0.0001, vals[j_] + r.choice([-1, 1]) * r.randint(1, 5) * 1e-4)), 4)
                        col_vals = [sympy.Rational(str(v)) for v in vals]
                        col_args = [Probability(v) for v in vals]
                    elif is_count:
                        vals = [r.randint(0, 12) for _ in range(n)]
                        col_vals = [sympy.Integer(v) for v in vals]
                        col_args = list(vals)
                    else:
                        for _ in range(n):
                            m = Fr(r.randint(1, 9999), 1000) * r.choice([1, 1, 1, -1])
                            v = sympy.Rational(m.numerator, m.denominator)
                            q = Quantity(v * unit) if unit != 1 else Quantity(v)
                            col_args.append(q)
                            col_vals.append(sympy.nsimplify(q.scale_factor, rational=True))
                    seqs[base] = col_vals
                    args_cols.append(col_args)
                arg = list(zip(*args_cols)) if pairs else args_cols[0]
                case = {"function": key, "sequence": [str(a) for a in (arg if not pairs else [tuple(map(float, a_)) for a_ in arg])][:6]}
                try:
                    with harness.Watchdog(60):
                        res = func(arg)
                    rv = result_value(res)
                except TimeoutError:
                    rec.inconc("watchdog in calculate function", {"function": key})
                    break
                except Exception:  # pylint: disable=broad-except
                    rec.add("indexed_refused")
                    continue
                total = n + 1 if closed else n
                full = expand_indexed(law.lhs - law.rhs, total)
                sub = {}
                for base, vals in seqs.items():
                    for j, v in enumerate(vals, 1):
                        sub[base[j]] = v
                z = sympy.Symbol("z_unknown")
                if closed:
                    sub[out_spec[total]] = z
                elif out_spec is not None and out_spec in law.free_symbols:
                    sub[out_spec] = z
                else:
                    rec.add("indexed_result_symbol_not_identifiable")
                    break
                expr = full.xreplace(sub)
                expr = expr.xreplace({q: sympy.nsimplify(q.scale_factor, rational=True) for q in expr.atoms(SymQuantity)})
                # the statistical weight of a macrostate, where the law leaves it free, is the multinomial coefficient of the
                # occupation numbers (the law the function itself cites)
                extra = [s_ for s_ in expr.free_symbols if s_ is not z]
                if extra and pairs:
                    counts = seqs[layout[1]]
                    w = sympy.factorial(sum(counts))
                    for c_ in counts:
                        w = w / sympy.factorial(c_)
                    expr = expr.xreplace({extra[0]: w}) if len(extra) == 1 else expr
                if [s_ for s_ in expr.free_symbols if s_ is not z]:
                    rec.add("indexed_law_has_other_free_symbols")
                    break
                try:
                    sols = sympy.solve(expr, z)
                    sols = [to_mp(s_) for s_ in sols]
                except Exception:  # pylint: disable=broad-except
                    rec.add("indexed_reference_not_solvable")
                    break
                if not sols:
                    rec.add("indexed_reference_not_solvable")
                    continue
                rec.hit("indexed_calls_compared")
                rec.case((key, str(case["sequence"])), nontrivial=n > 1)
                if not any(rel_close(rv, s_, mpmath.mpf("1e-9")) or abs(rv - s_) < mpmath.mpf("1e-12") for s_ in sols):
                    rec.violation(f"not-a-solution:{key}", f"{key}({case['sequence']}) returned {mpmath.nstr(rv, 15)} but the law {law}, written out for {total} elements, is solved by {[mpmath.nstr(s_, 12) for s_ in sols]}", case)
                    break
            else:
                rec.hit("indexed_functions_covered")


def work(spec, rec):
    if spec.get("kind") == "vectors":
        vector_pairs_work(spec, rec)
        return
    if spec.get("kind") == "indexed":
        indexed_laws_work(spec, rec)
        return
    import symplyphysics  # noqa pylint: disable=unused-import
    r = harness.rng_for("C02", spec["seed"], spec["_label"])
    exceptions = load_exceptions()
    uncovered = {}
    for name in spec["modules"]:
        rec.checkpoint()
        try:
            mod = catalogue.import_module(name)
        except Exception:  # pylint: disable=broad-except
            continue
        for fname, func in catalogue.functions(mod):
            if not fname.startswith("calculate"):
                continue
            rec.hit("functions_seen")
            try:
                info, reason = classify(mod, fname, func)
            except Exception as e:  # pylint: disable=broad-except
                info, reason = None, "classification failed: " + type(e).__name__
            if info is None:
                uncovered[reason.split(" (")[0].split(" not mappable")[0][:60]] = uncovered.get(reason.split(" (")[0].split(" not mappable")[0][:60], 0) + 1
                continue
            try:
                with harness.Watchdog(600):
                    check_function(r, rec, mod, fname, func, info, spec["tuples"], spec["tier"], exceptions)
            except TimeoutError:
                rec.inconc("watchdog around a function", {"function": fname})
    rec.extra["uncovered_by_reason"] = uncovered


def replay(case, rec):
    name = "symplyphysics." + case["function"].rsplit(".", 1)[0]
    work({"modules": [name], "seed": 0, "_label": "replay", "tuples": 12, "tier": "thorough"}, rec)
