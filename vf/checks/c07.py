"""C07 - unit conversion is exact, invertible and scale-consistent.
Workload: generated quantities (value x compound unit expression from the own table) x target units.
Monitor: return values / exceptions of the real convert_to / convert_to_si / convert_to_float / evaluate_expression and
the Celsius helpers.  Oracle: own unit table + algebraic laws."""
from __future__ import annotations

from fractions import Fraction as Fr

import mpmath

from vf import harness, numeval, units_ref

RULE = ("generated (q, u, v): q = rational/float value x product of 1-3 units of the own table with exponents in "
        "{-2,-1,-1/2,1/2,1,2,3} (mass exponents other than 0/1 included), u, v = other unit expressions of the same "
        "exponent vector (base, derived, prefixed, compound) or of a different one. Checked per triple: definition "
        "(n*u == q in SI), composition, convert_to_si == own SI value == convert_to(q, own coherent SI unit), refusal for "
        "inequivalent targets, convert_to_float only for dimensionless, evaluate_expression value-preserving; Celsius/kelvin "
        "helpers on random temperatures incl. 0 K and many decimals; prefixes table vs SI brochure (exhaustive). "
        "non-trivial = source and target spelled differently; distinct = distinct case description.")
RULE = RULE + " Also: expressions that contain plain SymPy units and constants (evaluate_expression); units of the non-SI base dimension 'information' (own values: byte = 8 bit, kibibyte = 8192 bit) convertible only among themselves."
ASSUMPTIONS = ["vf/units_ref.py table (typed from the SI brochure) defines the SI value and exponent vector of every unit"]
N = {"quick": 2400, "thorough": 32000}
MIN_REACH = {"quick": {"definition": 1500, "composition": 1200, "si": 1500, "refusal": 400, "evaluate_expression": 300,
                       "celsius": 300, "mass_exponent_not_0_1": 200, "prefix_table": 20, "every_unit_as_source": 50,
                       "every_unit_as_target": 50, "evaluate_expression_with_plain_units": 300, "foreign_dimension": 100, "evaluate_expression_floats": 1500, "evaluate_quantity": 1000},
             "thorough": {"definition": 20000, "composition": 15000}}
SHARD_TIMEOUT = {"quick": 300, "thorough": 2400}
EXPS = [Fr(1), Fr(1), Fr(1), Fr(-1), Fr(2), Fr(-2), Fr(3), Fr(1, 2), Fr(-1, 2)]


def plan(tier, seed):
    return _plan_core(tier, seed) + [{"_label": "suite", "kind": "suite", "tier": tier, "_timeout": 2400}]


def _plan_core(tier, seed):
    n = N[tier]
    return [{"_label": f"shard{i}", "seed": seed, "shard": i, "cases": n // 16} for i in range(16)]


def unit_expr(spec):
    """spec: list of (unit name, Fraction exponent, prefix name or None) -> (sympy expr, SI value mpf, vector)"""
    import sympy
    from sympy.physics.units import prefixes as P
    e = sympy.Integer(1)
    val = mpmath.mpf(1)
    vec = units_ref.ZERO
    for name, ex, pref in spec:
        ex = Fr(ex)
        u = units_ref.sympy_unit(name)
        uval, uvec = units_ref.UNITS[name]
        f = mpmath.mpf(uval.numerator) / uval.denominator
        if pref:
            u = getattr(P, pref) * u
            f = f * mpmath.mpf(10) ** units_ref.PREFIXES[pref]
        e = e * u ** sympy.Rational(ex.numerator, ex.denominator)
        val = val * mpmath.power(f, mpmath.mpf(ex.numerator) / ex.denominator)
        vec = units_ref.vmul(vec, units_ref.vpow(uvec, ex))
    return e, val, vec


def si_unit_expr(vec):
    import sympy
    e = sympy.Integer(1)
    for b, x in zip(units_ref.BASES, vec):
        if x != 0:
            e = e * units_ref.sympy_unit(units_ref.SI_BASE_UNIT[b]) ** sympy.Rational(x.numerator, x.denominator)
    return e


def rand_spec(r, names, k=None):
    k = k or r.choice([1, 1, 2, 2, 3])
    return [(r.choice(names), str(r.choice(EXPS)), r.choice([None, None, None, "kilo", "milli", "micro", "mega", "centi", "nano"]))
            for _ in range(k)]


def same_vector_spec(r, vec, names):
    """another spelling of the same exponent vector: SI base units, possibly with prefixes, or a derived unit + rest"""
    by_vec = {}
    for n in names:
        by_vec.setdefault(units_ref.UNITS[n][1], []).append(n)
    if vec in by_vec and r.random() < 0.5:
        return [(r.choice(by_vec[vec]), "1", r.choice([None, None, "kilo", "milli"]))]
    spec = []
    rest = vec
    # peel one derived unit whose vector divides out (e.g. newton, joule) to get a mixed spelling
    if r.random() < 0.5:
        cands = [n for n in names if sum(1 for x in units_ref.UNITS[n][1] if x != 0) >= 2]
        n = r.choice(cands)
        spec.append((n, "1", None))
        rest = units_ref.vmul(rest, units_ref.vpow(units_ref.UNITS[n][1], -1))
    for b, x in zip(units_ref.BASES, rest):
        if x != 0:
            pool = [n for n in names if units_ref.UNITS[n][1] == tuple(Fr(1) if bb == b else Fr(0) for bb in units_ref.BASES)]
            spec.append((r.choice(pool), str(x), r.choice([None, None, "kilo", "milli"])))
    return spec or [("percent", "1", None)] if vec == units_ref.ZERO and not spec else spec


def mp_of(x):
    import sympy
    x = sympy.N(sympy.sympify(x), 40)
    re_, im_ = x.as_real_imag()
    def one(p):
        p = sympy.N(p, 40)
        return mpmath.mpf(int(p.p)) / int(p.q) if p.is_Rational else mpmath.mpf(p._mpf_)
    return one(re_) if im_ == 0 else mpmath.mpc(one(re_), one(im_))


def close(a, b, rel="1e-12"):
    return abs(a - b) <= mpmath.mpf(rel) * max(abs(a), abs(b), mpmath.mpf("1e-300"))


def run_case(c, rec):
    import sympy
    from symplyphysics import Quantity, convert_to, convert_to_float, convert_to_si
    from symplyphysics.core.convert import evaluate_expression
    from symplyphysics.core.errors import UnitsError
    val = sympy.Rational(c["value"]) if c["value_kind"] == "rational" else sympy.Float(c["value"])
    vm = mp_of(val)
    qe, qv, qvec = unit_expr(c["q"])
    ue, uv, uvec = unit_expr(c["u"])
    ve, vv, vvec = unit_expr(c["v"])
    q = Quantity(val * qe)
    si_q = vm * qv
    rec.case(c, nontrivial=c["q"] != c["u"])
    for name, *_ in c["q"]:
        rec.extra.setdefault("source_units", {})[name] = 1
    for name, *_ in c["u"]:
        rec.extra.setdefault("target_units", {})[name] = 1
    if qvec[1] not in (0, 1):
        rec.hit("mass_exponent_not_0_1")
    # (1) definition
    try:
        n = convert_to(q, ue)
        nm = mp_of(n)
    except Exception as x:  # pylint: disable=broad-except
        rec.violation(f"convert_to-raises:{type(x).__name__}", f"convert_to({val}*{qe}, {ue}) raised {type(x).__name__}: {str(x)[:120]}", c)
        return
    rec.hit("definition")
    if not close(nm * uv, si_q):
        rec.violation("definition", f"convert_to({val}*{qe}, {ue}) = {mpmath.nstr(nm, 15)} but {mpmath.nstr(nm, 15)} x unit = {mpmath.nstr(nm * uv, 15)} SI != quantity {mpmath.nstr(si_q, 15)} SI", c)
        return
    back = Quantity(n * ue)
    if not close(mp_of(units_ref.observed_si_value(back)), si_q) or units_ref.observed_vector(back.dimension) != qvec:
        rec.violation("definition-roundtrip", f"Quantity(convert_to(q,u)*u) differs from q for q={val}*{qe}, u={ue}", c)
        return
    # (2) composition a->b->c == a->c
    try:
        n_uv = mp_of(convert_to(ue, ve))
        n_qv = mp_of(convert_to(q, ve))
        rec.hit("composition")
        if not close(nm * n_uv, n_qv):
            rec.violation("composition", f"convert_to(q,u)*convert_to(u,v) = {mpmath.nstr(nm * n_uv, 15)} != convert_to(q,v) = {mpmath.nstr(n_qv, 15)}; q={val}*{qe}, u={ue}, v={ve}", c)
            return
    except Exception as x:  # pylint: disable=broad-except
        rec.violation(f"convert_to-raises:{type(x).__name__}", f"composition raised {type(x).__name__}: {str(x)[:120]}", c)
        return
    # (3) SI
    try:
        s1 = mp_of(convert_to_si(q))
        s2 = mp_of(convert_to(q, si_unit_expr(qvec)))
        s3 = mp_of(convert_to_si(val * qe))
    except Exception as x:  # pylint: disable=broad-except
        rec.violation(f"convert_to_si-raises:{type(x).__name__}", f"convert_to_si raised {type(x).__name__}: {str(x)[:120]} for {val}*{qe}", c)
        return
    rec.hit("si")
    if not (close(s1, si_q) and close(s2, si_q) and close(s3, si_q)):
        rec.violation("si", f"convert_to_si({val}*{qe}) = {mpmath.nstr(s1, 15)}, to own SI unit = {mpmath.nstr(s2, 15)}, of expression = {mpmath.nstr(s3, 15)}; own table SI value = {mpmath.nstr(si_q, 15)}", c)
        return
    # (4) refusal
    we, wv, wvec = unit_expr(c["w"])
    if wvec != qvec and vm != 0:
        rec.hit("refusal")
        try:
            r_ = convert_to(q, we)
            rec.violation("converts-inequivalent", f"convert_to({val}*{qe}, {we}) returned {r_} although dimensions differ ({units_ref.vfmt(qvec)} vs {units_ref.vfmt(wvec)})", c)
            return
        except (UnitsError, TypeError):
            pass
        except Exception as x:  # pylint: disable=broad-except
            rec.note(f"refusal by {type(x).__name__}")
    # (5) convert_to_float only for dimensionless
    try:
        f = convert_to_float(q)
        if qvec != units_ref.ZERO and vm != 0:
            rec.violation("convert_to_float-dimensional", f"convert_to_float({val}*{qe}) returned {f} for a dimensional quantity", c)
            return
        if qvec == units_ref.ZERO and vm.imag == 0 if isinstance(vm, mpmath.mpc) else qvec == units_ref.ZERO:
            rec.hit("convert_to_float")
            if not close(mpmath.mpf(f), si_q, "1e-12"):
                rec.violation("convert_to_float-value", f"convert_to_float({val}*{qe}) = {f} != {mpmath.nstr(si_q, 15)}", c)
                return
    except (UnitsError, TypeError):
        if qvec == units_ref.ZERO:
            rec.violation("convert_to_float-refuses-dimensionless", f"convert_to_float({val}*{qe}) refused a dimensionless quantity", c)
            return
    # (6) evaluate_expression
    x = sympy.Symbol("x", positive=True)
    q2 = Quantity(sympy.Rational(c["value2"]) * ue)
    shapes = [q * x + 3 * q, x * q / q2, (q / q2 + 2) ** 2 * x, sympy.sqrt(q * q) + q, sympy.sqrt(x * q / q2) * q2 + q,
              # plain SymPy units and constants written directly into the expression are quantities too
              x * q / ue + 2, (q2 / ue + x) ** 2, q * ue * x + 3 * ue ** 2,
              sympy.sqrt(ue * q2) * x + q, x * sympy.physics.units.speed_of_light * q]
    e = shapes[c["shape"] % len(shapes)]
    if c["shape"] % len(shapes) >= 5:
        rec.hit("evaluate_expression_with_plain_units")
    try:
        ee = evaluate_expression(e)
        xv = mpmath.mpf(c["x"])
        v_in = numeval.Evaluator({x: xv}, quantity="si").ev(e)
        if ee.atoms(sympy.physics.units.Quantity):
            rec.violation("evaluate_expression-leaves-quantities", f"evaluate_expression({e}) still contains quantities: {ee}", c)
            return
        v_out = numeval.Evaluator({x: xv}, quantity="si").ev(ee)
        rec.hit("evaluate_expression")
        if not numeval.close(v_in, v_out, rel=mpmath.mpf("1e-10")):
            rec.violation("evaluate_expression-value", f"evaluate_expression({e}) = {ee}: value {mpmath.nstr(v_out, 12)} != {mpmath.nstr(v_in, 12)}", c)
            return
        # ... also when the SI numbers are evaluated to floats (evaluate=True), whatever their magnitude
        for kw in ({"evaluate": True}, {"evaluate": True, "n": 25}):
            ee2 = evaluate_expression(e, **kw)
            v2 = numeval.Evaluator({x: xv}, quantity="si").ev(ee2)
            rec.hit("evaluate_expression_floats")
            if ee2.atoms(sympy.physics.units.Quantity) or not numeval.close(v_in, v2, rel=mpmath.mpf("1e-9")):
                rec.violation("evaluate_expression-value:evaluate=True", f"evaluate_expression({e}, {kw}) = {ee2}: value {mpmath.nstr(v2, 12)} != {mpmath.nstr(v_in, 12)}", c)
                return
        # evaluate_quantity: same SI value, same dimension
        from symplyphysics.core.convert import evaluate_quantity
        eq_ = evaluate_quantity(q)
        rec.hit("evaluate_quantity")
        if not close(mp_of(units_ref.observed_si_value(eq_)), si_q, "1e-12") or units_ref.observed_vector(eq_.dimension) != qvec:
            rec.violation("evaluate_quantity", f"evaluate_quantity({val}*{qe}) has SI value {mp_of(units_ref.observed_si_value(eq_))} / dimension {eq_.dimension}; own table {mpmath.nstr(si_q, 15)}", c)
            return
    except numeval.NotEvaluable:
        rec.add("evaluate_expression_not_evaluable")
    except Exception as x_:  # pylint: disable=broad-except
        rec.violation(f"evaluate_expression-raises:{type(x_).__name__}", f"evaluate_expression({e}) raised {type(x_).__name__}: {str(x_)[:100]}", c)
        return
    if len(rec.samples) < 5:
        rec.sample({"q": f"{val}*{qe}", "u": str(ue), "v": str(ve), "convert_to(q,u)": mpmath.nstr(nm, 15), "si": mpmath.nstr(si_q, 15)})


def celsius_case(t, rec):
    from sympy.physics import units as U
    from symplyphysics import Quantity
    from symplyphysics.core.symbols import celsius as C
    c = {"celsius": repr(t)}
    rec.case(("celsius", repr(t)))
    rec.hit("celsius")
    cel = C.Celsius(t)
    try:
        k = C.to_kelvin(cel)
        if abs((k - t) - 273.15) > 1e-9 * max(1, abs(t)):
            rec.violation("celsius-offset", f"to_kelvin({t}) - {t} = {k - t} != 273.15", c)
            return
        back = C.from_kelvin(k).value
        if abs(back - t) > 1e-9 * max(1.0, abs(t), 273.15):
            rec.violation("celsius-inverse", f"from_kelvin(to_kelvin({t})) = {back}", c)
            return
        kq = C.to_kelvin_quantity(cel)
        kv = float(mp_of(units_ref.observed_si_value(kq)))
        if abs(kv - (t + 273.15)) > 1e-9 * max(1.0, abs(t), 273.15):
            rec.violation("celsius-quantity-offset", f"to_kelvin_quantity({t}) = {kv} K", c)
            return
        back_q = C.from_kelvin_quantity(kq).value
        if abs(back_q - t) > 1e-9 * max(1.0, abs(t), 273.15):
            rec.violation("celsius-quantity-inverse", f"from_kelvin_quantity(to_kelvin_quantity({t})) = {back_q}", c)
            return
        # the other composition order, from a kelvin quantity written in other units
        kq2 = Quantity((t + 273.15) * 1000 * U.milli * U.kelvin)
        b2 = C.to_kelvin(C.from_kelvin_quantity(kq2))
        if abs(b2 - (t + 273.15)) > 1e-9 * max(1.0, abs(t), 273.15):
            rec.violation("celsius-quantity-inverse", f"to_kelvin(from_kelvin_quantity({t + 273.15} K in mK)) = {b2}", c)
            return
    except Exception as x:  # pylint: disable=broad-except
        rec.violation(f"celsius-raises:{type(x).__name__}", f"Celsius helpers raised {type(x).__name__} ({str(x)[:80]}) at {t} degC", c)


def foreign_dimension_cases(rec, r):
    """dimensions outside the seven SI base ones (information: bit, byte, kibibyte - own values 1, 8, 8192 bit): equivalent
    only to themselves"""
    import sympy
    from sympy.physics import units as U
    from symplyphysics import Quantity, convert_to, convert_to_float
    from symplyphysics.core.errors import UnitsError
    info = {"bit": 1, "byte": 8, "kibibyte": 8192}
    others = [sympy.Integer(1), U.meter, U.second, U.hertz, U.kilogram]
    for _ in range(40):
        a, b = r.choice(list(info)), r.choice(list(info))
        val = sympy.Rational(r.randint(1, 999), r.choice([1, 10]))
        extra = r.choice([sympy.Integer(1), 1 / U.second, U.meter])
        q = Quantity(val * getattr(U, a) * extra)
        c = {"foreign": f"{val}*{a}*{extra}", "target": f"{b}*{extra}"}
        rec.case(("foreign", str(c)))
        rec.hit("foreign_dimension")
        try:
            n = mp_of(convert_to(q, getattr(U, b) * extra))
            if not close(n * info[b], mp_of(val) * info[a]):
                rec.violation("definition:information", f"convert_to({c['foreign']}, {c['target']}) = {mpmath.nstr(n, 15)}; own table: {a} = {info[a]} bit, {b} = {info[b]} bit", c)
        except Exception as x:  # pylint: disable=broad-except
            rec.violation(f"convert_to-raises:{type(x).__name__}", f"convert_to({c['foreign']}, {c['target']}) raised {type(x).__name__}: {str(x)[:100]}", c)
        # the information factor is a dimension of its own: dropping it (or adding it) must be refused
        o = r.choice(others)
        for src, tgt, label in ((q, o * extra, f"{c['foreign']} -> {o * extra}"), (Quantity(val * o * extra), getattr(U, b) * o * extra, f"{val}*{o * extra} -> {b}*{o * extra}")):
            rec.hit("refusal")
            try:
                res = convert_to(src, tgt)
                rec.violation("converts-inequivalent:information", f"convert_to({label}) returned {res} although one side carries an information dimension and the other does not", c)
            except (UnitsError, TypeError):
                pass
            except Exception as x:  # pylint: disable=broad-except
                rec.note(f"refusal by {type(x).__name__}")
        if extra == 1:
            try:
                f = convert_to_float(q)
                rec.violation("convert_to_float-dimensional:information", f"convert_to_float({c['foreign']}) returned {f} for a quantity of information", c)
            except (UnitsError, TypeError):
                pass
            except Exception as x:  # pylint: disable=broad-except
                rec.note(f"refusal by {type(x).__name__}")


def prefix_table(rec):
    from symplyphysics import prefixes
    for name, p in units_ref.PREFIXES.items():
        rec.case(("prefix", name))
        rec.hit("prefix_table")
        got = getattr(prefixes, name, None)
        if got is None or mpmath.mpf(got) != mpmath.mpf(10) ** p and abs(mpmath.mpf(got) / mpmath.mpf(10) ** p - 1) > 1e-14:
            rec.violation(f"prefix:{name}", f"prefixes.{name} = {got}, SI brochure 10^{p}", {"prefix": name})
    extra = [n for n in prefixes._fields if n not in units_ref.PREFIXES]
    if extra:
        rec.inconc("prefix not in own table", extra)


def gen_case(r, names):
    qspec = rand_spec(r, names)
    _, _, qvec = unit_expr(qspec)
    kind = r.choice(["rational", "rational", "float"])
    if kind == "rational":
        value = str(Fr(r.randint(-9999, 9999) or 7, r.choice([1, 1, 10, 1000, 7])))
    else:
        value = repr(r.choice([1.5, 2.25e-7, 3.3e12, -0.125, 6.02e23, 9.81, 1.6e-19, 6.626e-34, 1.38e-23]))
    uspec = same_vector_spec(r, qvec, names)
    vspec = same_vector_spec(r, qvec, names)
    wspec = rand_spec(r, names, 1)
    return {"q": qspec, "u": uspec, "v": vspec, "w": wspec, "value": value, "value_kind": kind,
            "value2": str(Fr(r.randint(1, 999), r.choice([1, 10, 100]))), "shape": r.randrange(10), "x": str(r.randint(1, 50) / 10)}


def work(spec, rec):
    if spec.get("kind") == "suite":
        harness.run_suite("C07", harness.SUITE_QUICK if spec["tier"] == "quick" else harness.SUITE_FULL, rec)
        rec.case(("suite", spec["tier"]))
        return
    r = harness.rng_for("C07", spec["seed"], spec["shard"])
    names = units_ref.available_units()
    if spec["shard"] == 0:
        prefix_table(rec)
    if spec["shard"] < 4:
        foreign_dimension_cases(rec, r)
    for i in range(spec["cases"]):
        rec.checkpoint()
        c = gen_case(r, names)
        try:
            with harness.Watchdog(20):
                run_case(c, rec)
        except TimeoutError:
            rec.inconc("watchdog")
        if i % 6 == 0:
            t = r.choice([0.0, -273.15, 36.6666, 100.0, 25.0, -40.0, 1e-3 - 273.15, 5526.85, r.uniform(-273.15, 3000), round(r.uniform(-200, 500), 4)])
            celsius_case(t, rec)


def finalize(merged, tier, seed, results):
    src = merged["extra"].get("source_units", {})
    tgt = merged["extra"].get("target_units", {})
    merged["reach"]["every_unit_as_source"] = len(src)
    merged["reach"]["every_unit_as_target"] = len(tgt)
    merged["extra"]["source_units"] = len(src)
    merged["extra"]["target_units"] = len(tgt)
    return {"unit_pool": len(units_ref.available_units())}


def replay(case, rec):
    if "celsius" in case:
        celsius_case(float(case["celsius"]), rec)
    elif "prefix" in case:
        prefix_table(rec)
    else:
        run_case(case, rec)
    rec.note("replayed " + str(case)[:300])
