"""Own unit table (typed from the SI brochure / NIST SP 811, NOT read from SymPy):
   unit name in sympy.physics.units -> (value in SI base units as exact Fraction or float, exponent vector).
   Exponent vector order: (length, mass, time, current, temperature, amount_of_substance, luminous_intensity).
   Angles are dimensionless here (the library erases `angle` as well)."""
from __future__ import annotations

from fractions import Fraction as Fr
import math

BASES = ("length", "mass", "time", "current", "temperature", "amount_of_substance", "luminous_intensity")


def vec(L=0, M=0, T=0, I=0, Th=0, N=0, J=0):
    return (Fr(L), Fr(M), Fr(T), Fr(I), Fr(Th), Fr(N), Fr(J))


ZERO = vec()
PI = Fr(math.pi)  # float pi as exact fraction: comparisons use 1e-12 relative tolerance anyway

UNITS: dict[str, tuple[Fr, tuple]] = {
    # base
    "meter": (Fr(1), vec(L=1)),
    "kilogram": (Fr(1), vec(M=1)),
    "gram": (Fr(1, 1000), vec(M=1)),
    "second": (Fr(1), vec(T=1)),
    "ampere": (Fr(1), vec(I=1)),
    "kelvin": (Fr(1), vec(Th=1)),
    "mole": (Fr(1), vec(N=1)),
    "candela": (Fr(1), vec(J=1)),
    # length
    "kilometer": (Fr(1000), vec(L=1)),
    "centimeter": (Fr(1, 100), vec(L=1)),
    "millimeter": (Fr(1, 1000), vec(L=1)),
    "micrometer": (Fr(1, 10**6), vec(L=1)),
    "nanometer": (Fr(1, 10**9), vec(L=1)),
    "decimeter": (Fr(1, 10), vec(L=1)),
    "inch": (Fr(254, 10000), vec(L=1)),
    "foot": (Fr(3048, 10000), vec(L=1)),
    "yard": (Fr(9144, 10000), vec(L=1)),
    "mile": (Fr(1609344, 1000), vec(L=1)),
    "angstrom": (Fr(1, 10**10), vec(L=1)),
    # mass
    "milligram": (Fr(1, 10**6), vec(M=1)),
    "microgram": (Fr(1, 10**9), vec(M=1)),
    "tonne": (Fr(1000), vec(M=1)),
    "pound": (Fr(45359237, 10**8), vec(M=1)),
    # time
    "millisecond": (Fr(1, 1000), vec(T=1)),
    "microsecond": (Fr(1, 10**6), vec(T=1)),
    "nanosecond": (Fr(1, 10**9), vec(T=1)),
    "minute": (Fr(60), vec(T=1)),
    "hour": (Fr(3600), vec(T=1)),
    "day": (Fr(86400), vec(T=1)),
    # volume
    "liter": (Fr(1, 1000), vec(L=3)),
    "milliliter": (Fr(1, 10**6), vec(L=3)),
    # mechanics
    "newton": (Fr(1), vec(L=1, M=1, T=-2)),
    "joule": (Fr(1), vec(L=2, M=1, T=-2)),
    "watt": (Fr(1), vec(L=2, M=1, T=-3)),
    "pascal": (Fr(1), vec(L=-1, M=1, T=-2)),
    "hertz": (Fr(1), vec(T=-1)),
    "bar": (Fr(10**5), vec(L=-1, M=1, T=-2)),
    "atmosphere": (Fr(101325), vec(L=-1, M=1, T=-2)),
    "psi": (Fr(45359237, 10**8) * Fr(980665, 10**5) / (Fr(254, 10000) ** 2), vec(L=-1, M=1, T=-2)),
    "electronvolt": (Fr("1.602176634e-19"), vec(L=2, M=1, T=-2)),
    # electromagnetism
    "coulomb": (Fr(1), vec(T=1, I=1)),
    "volt": (Fr(1), vec(L=2, M=1, T=-3, I=-1)),
    "ohm": (Fr(1), vec(L=2, M=1, T=-3, I=-2)),
    "siemens": (Fr(1), vec(L=-2, M=-1, T=3, I=2)),
    "farad": (Fr(1), vec(L=-2, M=-1, T=4, I=2)),
    "henry": (Fr(1), vec(L=2, M=1, T=-2, I=-2)),
    "tesla": (Fr(1), vec(M=1, T=-2, I=-1)),
    "weber": (Fr(1), vec(L=2, M=1, T=-2, I=-1)),
    # photometry / radiation / chemistry
    "lux": (Fr(1), vec(L=-2, J=1)),
    "becquerel": (Fr(1), vec(T=-1)),
    "gray": (Fr(1), vec(L=2, T=-2)),
    "katal": (Fr(1), vec(T=-1, N=1)),
    # angles (dimensionless in this library)
    "radian": (Fr(1), ZERO),
    "degree": (PI / 180, ZERO),
    # dimensionless
    "percent": (Fr(1, 100), ZERO),
    "permille": (Fr(1, 1000), ZERO),
}

# SymPy prefix objects (sympy.physics.units.prefixes.<name>) -> power of ten (SI brochure table 7)
PREFIXES: dict[str, int] = {
    "yotta": 24, "zetta": 21, "exa": 18, "peta": 15, "tera": 12, "giga": 9, "mega": 6, "kilo": 3,
    "hecto": 2, "deca": 1, "deci": -1, "centi": -2, "milli": -3, "micro": -6, "nano": -9, "pico": -12,
    "femto": -15, "atto": -18, "zepto": -21, "yocto": -24,
}

# the SI coherent unit of each base dimension, as named in sympy.physics.units
SI_BASE_UNIT = {"length": "meter", "mass": "kilogram", "time": "second", "current": "ampere",
                "temperature": "kelvin", "amount_of_substance": "mole", "luminous_intensity": "candela"}


def vmul(a, b):
    return tuple(x + y for x, y in zip(a, b))


def vpow(a, e):
    return tuple(x * e for x in a)


def vfmt(a) -> str:
    parts = [f"{n}^{x}" for n, x in zip(BASES, a) if x != 0]
    return "*".join(parts) or "1"


def sympy_unit(name: str):
    from sympy.physics import units
    return getattr(units, name)


def available_units() -> list[str]:
    from sympy.physics import units
    return [n for n in UNITS if hasattr(units, n)]


# ---- observing the library's objects under the *ratio convention* ----
# SymPy's SI keeps scale factors relative to the gram (kilogram.scale_factor == 1000), so
# "SI value of q" := scale_factor(q) / 1000**(mass exponent of q)  (== what convert_to_si returns).

def observed_vector(dimension) -> tuple | None:
    """Exponent vector of a sympy Dimension via SymPy's dimension system (trusted), angle erased."""
    import sympy
    from sympy.physics.units.systems.si import dimsys_SI
    if type(dimension).__name__ == "AnyDimension":
        return None
    deps = dimsys_SI.get_dimensional_dependencies(dimension)
    out = []
    names = {}
    for k, v in deps.items():
        names[str(getattr(k, "name", k))] = v
    for b in BASES:
        v = sympy.sympify(names.pop(b, 0))
        if v.is_Rational:
            out.append(Fr(int(v.p), int(v.q)))
        elif v.is_number and v.is_real:
            out.append(Fr(float(v)))  # float exponent: exact binary fraction of the float
        else:  # symbolic or complex exponent
            return ("symbolic", str(deps))
    names.pop("angle", None)
    if any(v != 0 for v in names.values()):
        return ("foreign", str(deps))
    return tuple(out)


def observed_si_value(q):
    """SI value (complex/mpf-able sympy number) of a library/sympy Quantity under the ratio convention."""
    import sympy
    v = observed_vector(q.dimension)
    sf = q.scale_factor
    if v is None or (isinstance(v, tuple) and v and v[0] in ("symbolic", "foreign")):
        return sf
    if abs(v[1]) > 64 or v[1].denominator > 10**6:  # avoid exact huge integer powers / float exponents
        return sf * sympy.Float(10, 40) ** (sympy.Float(-3, 40) * sympy.Rational(v[1].numerator, v[1].denominator))
    return sf / sympy.Integer(1000) ** sympy.Rational(v[1].numerator, v[1].denominator)


def vec_close(a, b, tol=1e-9) -> bool:
    return all(abs(float(x) - float(y)) <= tol for x, y in zip(a, b))
