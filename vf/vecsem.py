"""R^3 interpreter for the experimental coordinate-free vector algebra (C14, C16).
Two independent evaluators:
  * sem(tree, env): value of a *generator tree* (JSON lists) - what was written;
  * interp(expr, env): value of the SymPy object the library returned.
Numbers are any ring with sqrt/abs (mpmath mpf, or Dual numbers over mpf for derivatives)."""
from __future__ import annotations

import mpmath

mpmath.mp.dps = 40


class Dual:
    """first-order forward-mode AD number a + b*eps over mpf"""
    __slots__ = ("a", "b")

    def __init__(self, a, b=0):
        self.a = mpmath.mpf(a)
        self.b = mpmath.mpf(b)

    @staticmethod
    def c(o):
        return o if isinstance(o, Dual) else Dual(o, 0)

    def __add__(self, o):
        o = Dual.c(o)
        return Dual(self.a + o.a, self.b + o.b)

    __radd__ = __add__

    def __neg__(self):
        return Dual(-self.a, -self.b)

    def __sub__(self, o):
        return self + (-Dual.c(o))

    def __rsub__(self, o):
        return Dual.c(o) + (-self)

    def __mul__(self, o):
        o = Dual.c(o)
        return Dual(self.a * o.a, self.a * o.b + self.b * o.a)

    __rmul__ = __mul__

    def __truediv__(self, o):
        o = Dual.c(o)
        return Dual(self.a / o.a, (self.b * o.a - self.a * o.b) / (o.a * o.a))

    def __rtruediv__(self, o):
        return Dual.c(o) / self

    def __pow__(self, n):
        if isinstance(n, Dual):
            if n.b != 0:
                raise TypeError("dual exponent")
            n = n.a
        if self.a == 0 and n > 1:
            return Dual(0, 0)
        return Dual(self.a ** n, n * self.a ** (n - 1) * self.b)

    def __abs__(self):
        if self.a == 0:
            raise ZeroDivisionError("abs at 0 not differentiable")
        return self if self.a > 0 else -self

    def sqrt(self):
        r = mpmath.sqrt(self.a)
        return Dual(r, self.b / (2 * r))


def _sqrt(x):
    return x.sqrt() if isinstance(x, Dual) else mpmath.sqrt(x)


def vadd(a, b):
    return tuple(x + y for x, y in zip(a, b))


def vscale(k, a):
    return tuple(k * x for x in a)


def vdot(a, b):
    return a[0] * b[0] + a[1] * b[1] + a[2] * b[2]


def vcross(a, b):
    return (a[1] * b[2] - a[2] * b[1], a[2] * b[0] - a[0] * b[2], a[0] * b[1] - a[1] * b[0])


def vnorm(a):
    return _sqrt(vdot(a, a))


def isvec(v):
    return isinstance(v, tuple)


ZERO = (mpmath.mpf(0),) * 3


# ---------------- generator trees ----------------
# vectors: ["v", i] ["vadd", a, b] ["vsub", a, b] ["vscale", s, a] ["vneg", a] ["cross", a, b] ["vzero"] ["vdiv", a, s]
# scalars: ["s", i] ["num", "p/q"] ["dot", a, b] ["mixed", a, b, c] ["norm", a] ["sadd", x, y] ["smul", x, y] ["spow", x, n]

def sem(t, vv, sv):
    k = t[0]
    if k == "v":
        return vv[t[1]]
    if k == "s":
        return sv[t[1]]
    if k == "num":
        if "/" in t[1]:
            p_, q_ = t[1].split("/")
            return mpmath.mpf(int(p_)) / int(q_)
        return mpmath.mpf(int(t[1]))
    if k == "vzero":
        return ZERO
    if k == "vadd":
        return vadd(sem(t[1], vv, sv), sem(t[2], vv, sv))
    if k == "vsub":
        return vadd(sem(t[1], vv, sv), vscale(-1, sem(t[2], vv, sv)))
    if k == "vneg":
        return vscale(-1, sem(t[1], vv, sv))
    if k == "vscale":
        return vscale(sem(t[1], vv, sv), sem(t[2], vv, sv))
    if k == "vdiv":
        return vscale(1 / sem(t[2], vv, sv), sem(t[1], vv, sv))
    if k == "cross":
        return vcross(sem(t[1], vv, sv), sem(t[2], vv, sv))
    if k == "dot":
        return vdot(sem(t[1], vv, sv), sem(t[2], vv, sv))
    if k == "mixed":
        return vdot(sem(t[1], vv, sv), vcross(sem(t[2], vv, sv), sem(t[3], vv, sv)))
    if k == "norm":
        return vnorm(sem(t[1], vv, sv))
    if k == "sadd":
        return sem(t[1], vv, sv) + sem(t[2], vv, sv)
    if k == "smul":
        return sem(t[1], vv, sv) * sem(t[2], vv, sv)
    if k == "spow":
        return sem(t[1], vv, sv) ** t[2]
    raise ValueError("bad tree node " + str(k))


class Uninterpretable(Exception):
    pass


def interp(e, env):
    """Value of a SymPy object returned by the library; env maps atoms (vector symbols, scalar symbols,
    applied functions, and (applied function, order) pairs for derivatives) to values."""
    import sympy
    from symplyphysics.core.experimental import vectors as V
    if e in env:
        return env[e]
    if e.is_Number:
        if e.is_Rational:
            return mpmath.mpf(int(e.p)) / int(e.q)
        return mpmath.mpf(sympy.N(e, 40))
    if isinstance(e, V.VectorCross):
        return vcross(_v(interp(e.args[0], env)), _v(interp(e.args[1], env)))
    if isinstance(e, V.VectorDot):
        return vdot(_v(interp(e.args[0], env)), _v(interp(e.args[1], env)))
    if isinstance(e, V.VectorMixedProduct):
        a, b, c = [_v(interp(x, env)) for x in e.args]
        return vdot(a, vcross(b, c))
    if isinstance(e, V.VectorNorm):
        return vnorm(_v(interp(e.args[0], env)))
    if isinstance(e, sympy.Derivative) and isinstance(e.expr, sympy.sign):
        # d/dt sign(u) = 2 delta(u) u' : zero away from u = 0
        u = _val(interp(e.expr.args[0], env))
        if u == 0:
            raise ZeroDivisionError("derivative of sign at 0")
        return mpmath.mpf(0)
    if isinstance(e, sympy.Derivative):
        f = e.expr
        order = sum(n for _, n in e.variable_count)
        key = (f, order)
        if key in env:
            return env[key]
        raise Uninterpretable(f"derivative {e}")
    if isinstance(e, sympy.Add):
        vals = [interp(a, env) for a in e.args]
        if any(isvec(v) for v in vals):
            out = ZERO
            for v in vals:
                if not isvec(v):
                    if _val(v) == 0:
                        continue
                    raise Uninterpretable("scalar + vector")
                out = vadd(out, v)
            return out
        s = vals[0]
        for v in vals[1:]:
            s = s + v
        return s
    if isinstance(e, sympy.Mul):
        sc = mpmath.mpf(1)
        vec = None
        for a in e.args:
            v = interp(a, env)
            if isvec(v):
                if vec is not None:
                    raise Uninterpretable("vector * vector")
                vec = v
            else:
                sc = sc * v
        return vscale(sc, vec) if vec is not None else sc
    if isinstance(e, sympy.Pow):
        b = interp(e.base, env)
        x = interp(e.exp, env)
        if isvec(b) or isvec(x):
            raise Uninterpretable("vector in power")
        if isinstance(x, Dual):
            x = x.a
        if x == mpmath.mpf(1) / 2:
            return _sqrt(b)
        if x == -mpmath.mpf(1) / 2:
            return 1 / _sqrt(b)
        if x == int(x):
            x = int(x)
            if x < 0:
                return 1 / (b ** (-x))
            return b ** x
        if isinstance(b, Dual):
            raise Uninterpretable("non-integer power of dual")
        return b ** x
    if isinstance(e, sympy.Abs):
        return abs(interp(e.args[0], env))
    if isinstance(e, sympy.re):  # all values are real in the R^3 semantics
        return interp(e.args[0], env)
    if isinstance(e, sympy.im):
        interp(e.args[0], env)
        return mpmath.mpf(0)
    if isinstance(e, sympy.DiracDelta):
        x = _val(interp(e.args[0], env))
        if x == 0:
            raise ZeroDivisionError("DiracDelta at 0")
        return mpmath.mpf(0)
    if isinstance(e, sympy.sign):
        x = _val(interp(e.args[0], env))
        if x == 0:
            raise ZeroDivisionError("sign at 0")
        return mpmath.mpf(1 if x > 0 else -1)
    raise Uninterpretable("unsupported node " + type(e).__name__)


def _v(x):
    if isvec(x):
        return x
    if _val(x) == 0:
        return ZERO
    raise Uninterpretable("scalar where vector expected")


def _val(x):
    return x.a if isinstance(x, Dual) else x


def close(want, got, tol=mpmath.mpf("1e-18")):
    """compare two values (scalar or vector; mpf or Dual); returns (ok, max abs diff, scale)"""
    if isvec(want) != isvec(got):
        if isvec(want) and not isvec(got) and _val(got) == 0:
            got = ZERO
        elif isvec(got) and not isvec(want) and _val(want) == 0:
            want = ZERO
        else:
            return False, None, None
    ws = want if isvec(want) else (want,)
    gs = got if isvec(got) else (got,)
    d = mpmath.mpf(0)
    sc = mpmath.mpf(1)
    for w, g in zip(ws, gs):
        for part in ("a", "b"):
            wv = getattr(w, part) if isinstance(w, Dual) else (w if part == "a" else mpmath.mpf(0))
            gv = getattr(g, part) if isinstance(g, Dual) else (g if part == "a" else mpmath.mpf(0))
            if part == "b" and not (isinstance(w, Dual) or isinstance(g, Dual)):
                continue
            d = max(d, abs(wv - gv))
            sc = max(sc, abs(wv))
    return d <= tol * sc, d, sc
