"""Monitor attachment without editing /repo: wrap a function and re-bind every reference to it in sys.modules
(from-imports included)."""
from __future__ import annotations

import sys


def rebind(original, replacement, prefixes=("symplyphysics", "test")) -> int:
    """replace every module-level reference to `original` by `replacement`; returns the number of rebindings"""
    n = 0
    for name, mod in list(sys.modules.items()):
        if mod is None or not any(name == p or name.startswith(p + ".") for p in prefixes):
            continue
        try:
            items = list(vars(mod).items())
        except TypeError:
            continue
        for k, v in items:
            if v is original:
                setattr(mod, k, replacement)
                n += 1
    return n
