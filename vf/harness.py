"""Harness shared by all checks: tiers, seeds, sharding over subprocesses with watchdogs,
three-valued verdicts, known findings, replay files, evidence writer (self-validated)."""
from __future__ import annotations

import concurrent.futures
import fnmatch
import hashlib
import json
import math
import os
import random
import shutil
import signal
import subprocess
import sys
import tempfile
import time
import traceback
from typing import Any

HOME = os.environ.get("VERIF_HOME") or os.path.dirname(os.path.dirname(os.path.abspath(__file__)))
REPO = os.environ.get("VERIF_REPO", "/repo")
PY = os.environ.get("VERIF_PY", "/venv/bin/python")
NPROC = int(os.environ.get("VERIF_NPROC", "16"))
MAX_SAMPLES = 12
MAX_VIOLATIONS_KEPT = 200


def seed_from_env() -> int:
    try:
        return int(os.environ.get("VERIF_SEED", "0"))
    except ValueError:
        return 0


def rng_for(*parts: Any) -> random.Random:
    return random.Random(":".join(str(p) for p in parts))


def h(obj: Any) -> str:
    """Short stable hash of a JSON-able object (case identity)."""
    if not isinstance(obj, str):
        obj = json.dumps(obj, sort_keys=True, default=str)
    return hashlib.sha1(obj.encode()).hexdigest()[:12]


class Rec:
    """Event recorder used inside a worker. Everything it holds is JSON-serialisable."""

    def __init__(self) -> None:
        self.evaluations = 0
        self.hashes: set[str] = set()
        self.samples: list[Any] = []
        self.violations: list[dict] = []
        self.nviol = 0
        self.inconclusive: dict[str, int] = {}
        self.inconclusive_examples: dict[str, Any] = {}
        self.reach: dict[str, int] = {}
        self.extra: dict[str, Any] = {}
        self.notes: list[str] = []

    def case(self, ident: Any, nontrivial: bool = True, n: int = 1) -> None:
        """One oracle evaluation of a case identified by `ident`."""
        self.evaluations += n
        if nontrivial:
            self.hashes.add(h(ident))

    def sample(self, obj: Any, force: bool = False) -> None:
        if len(self.samples) < MAX_SAMPLES or force:
            self.samples.append(obj)

    def violation(self, key: str, what: str, case: Any) -> None:
        if "TimeoutError" in key:
            # the only source of TimeoutError is this harness's own wall-clock watchdog (the library never raises it): a slow
            # computation on a loaded machine decides nothing
            self.inconc("watchdog fired inside the monitored call (" + key.split(":")[0] + ")", case)
            return
        self.nviol += 1
        if len(self.violations) < MAX_VIOLATIONS_KEPT:
            self.violations.append({"key": key, "what": what, "case": case})

    def inconc(self, reason: str, example: Any = None) -> None:
        self.inconclusive[reason] = self.inconclusive.get(reason, 0) + 1
        if example is not None and reason not in self.inconclusive_examples:
            self.inconclusive_examples[reason] = example

    def hit(self, name: str, n: int = 1) -> None:
        self.reach[name] = self.reach.get(name, 0) + n

    def add(self, name: str, n: int = 1) -> None:
        self.extra[name] = self.extra.get(name, 0) + n

    def checkpoint(self, every: float = 10.0) -> None:
        """dump partial results so that a shard killed by the wall-clock watchdog still reports what it observed"""
        path = getattr(self, "_out", None)
        now = time.time()
        if path and now - getattr(self, "_last_dump", 0) > every:
            self._last_dump = now
            tmp = path + ".tmp"
            with open(tmp, "w") as f:
                json.dump(self.to_json(), f, default=str)
            os.replace(tmp, path)

    def note(self, text: str) -> None:
        if len(self.notes) < 50:
            self.notes.append(text)

    def to_json(self) -> dict:
        return {
            "evaluations": self.evaluations,
            "hashes": sorted(self.hashes),
            "samples": self.samples,
            "violations": self.violations,
            "nviol": self.nviol,
            "inconclusive": self.inconclusive,
            "inconclusive_examples": self.inconclusive_examples,
            "reach": self.reach,
            "extra": self.extra,
            "notes": self.notes,
        }


def merge(results: list[dict]) -> dict:
    out = Rec().to_json()
    hashes: set[str] = set()
    for r in results:
        out["evaluations"] += r.get("evaluations", 0)
        hashes.update(r.get("hashes", []))
        for s in r.get("samples", []):
            out["samples"].append(s)
        out["violations"].extend(r.get("violations", []))
        out["nviol"] += r.get("nviol", 0)
        for k, v in r.get("inconclusive", {}).items():
            out["inconclusive"][k] = out["inconclusive"].get(k, 0) + v
        for k, v in r.get("inconclusive_examples", {}).items():
            out["inconclusive_examples"].setdefault(k, v)
        for k, v in r.get("reach", {}).items():
            out["reach"][k] = out["reach"].get(k, 0) + v
        for k, v in r.get("extra", {}).items():
            cur = out["extra"].get(k)
            if isinstance(v, bool):
                out["extra"][k] = v if cur is None else (cur and v)
            elif isinstance(v, (int, float)) and isinstance(cur, (int, float, type(None))):
                out["extra"][k] = (cur or 0) + v
            elif isinstance(v, list):
                out["extra"][k] = (cur or []) + v
            elif isinstance(v, dict):
                d = dict(cur or {})
                for kk, vv in v.items():
                    if isinstance(vv, (int, float)) and isinstance(d.get(kk, 0), (int, float)):
                        d[kk] = d.get(kk, 0) + vv
                    elif isinstance(vv, list):
                        d[kk] = list(d.get(kk, [])) + vv
                    else:
                        d[kk] = vv
                out["extra"][k] = d
            else:
                out["extra"][k] = v
        out["notes"].extend(r.get("notes", []))
    out["hashes"] = sorted(hashes)
    # keep samples spread over shards
    if len(out["samples"]) > MAX_SAMPLES:
        step = len(out["samples"]) / MAX_SAMPLES
        out["samples"] = [out["samples"][int(i * step)] for i in range(MAX_SAMPLES)]
    out["notes"] = out["notes"][:50]
    return out


def worker_env() -> dict:
    env = dict(os.environ)
    env["PYTHONPATH"] = f"{REPO}:{HOME}"
    env["PYTHONDONTWRITEBYTECODE"] = "1"
    env.setdefault("PYTHONHASHSEED", "0")
    env["VERIF_HOME"] = HOME
    env["VERIF_REPO"] = REPO
    return env


def run_shards(check: str, specs: list[dict], timeout: float, nproc: int = NPROC,
               env_extra: dict | None = None) -> list[dict]:
    """Run `vf.worker <check>` once per spec in parallel subprocesses.  A worker that dies or
    exceeds the wall-clock watchdog yields an *inconclusive* shard result, never a violation."""
    tmp = tempfile.mkdtemp(prefix="vf_")
    env = worker_env()
    if env_extra:
        env.update(env_extra)

    def one(i_spec):
        i, spec = i_spec
        sp = os.path.join(tmp, f"s{i}.json")
        op = os.path.join(tmp, f"o{i}.json")
        with open(sp, "w") as f:
            json.dump(spec, f)
        e = dict(env)
        for k, v in (spec.get("_env") or {}).items():
            e[k] = str(v)
        t0 = time.time()
        try:
            p = subprocess.run([PY, "-m", "vf.worker", check, sp, op], env=e, cwd=tmp,
                               timeout=spec.get("_timeout", timeout), capture_output=True, text=True)
        except subprocess.TimeoutExpired:
            res = None
            if os.path.exists(op):  # the worker checkpoints partial results
                try:
                    with open(op) as f:
                        res = json.load(f)
                except Exception:  # pylint: disable=broad-except
                    res = None
            if res is None:
                res = Rec().to_json()
            res["inconclusive"]["watchdog: shard exceeded wall-clock limit (partial results kept)"] = 1
            res["inconclusive_examples"].setdefault("watchdog: shard exceeded wall-clock limit (partial results kept)",
                                                    {"shard": spec.get("_label", i)})
            return res
        if os.path.exists(op):
            try:
                with open(op) as f:
                    res = json.load(f)
                res.setdefault("extra", {})
                return res
            except Exception:  # pylint: disable=broad-except
                pass
        r = Rec()
        r.inconc("worker died without result", {"shard": spec.get("_label", i), "rc": p.returncode,
                                                "stderr": p.stderr[-1500:], "wall": time.time() - t0})
        return r.to_json()

    try:
        with concurrent.futures.ThreadPoolExecutor(max_workers=nproc) as ex:
            results = list(ex.map(one, list(enumerate(specs))))
    finally:
        shutil.rmtree(tmp, ignore_errors=True)
    return results


def load_known(prop: str) -> list[dict]:
    path = os.path.join(HOME, "known_findings.json")
    try:
        with open(path) as f:
            data = json.load(f)
    except FileNotFoundError:
        return []
    return [e for e in data.get("findings", []) if e.get("property") == prop]


def validate_evidence(ev: dict) -> str | None:
    try:
        import jsonschema  # type: ignore
    except ImportError:
        jsonschema = None
    schema_path = os.path.join(HOME, "vf", "data", "EVIDENCE.schema.json")
    if jsonschema is not None and os.path.exists(schema_path):
        with open(schema_path) as f:
            schema = json.load(f)
        try:
            jsonschema.validate(ev, schema)
        except jsonschema.ValidationError as e:  # type: ignore
            return str(e.message)
        return None
    # minimal structural self-check when jsonschema is not importable by this interpreter
    cov = ev.get("coverage", {})
    for k in ("evaluations", "distinct_nontrivial", "rule", "samples"):
        if k not in cov:
            return f"coverage.{k} missing"
    if cov["evaluations"] < 1 or cov["distinct_nontrivial"] < 2 or not cov["samples"]:
        return "coverage counts too small"
    return None


def report(prop: str, tier: str, seed: int, merged: dict, rule: str, assumptions: list[str],
           min_reach: dict[str, int], t0: float, extra_cov: dict | None = None) -> int:
    known = load_known(prop)
    known_active = [e for e in known if e.get("status") == "known"]
    seen_known: dict[str, dict] = {}
    unlisted: dict[str, dict] = {}
    for v in merged["violations"]:
        matched = None
        for e in known_active:
            if v["key"] == e["key"] or fnmatch.fnmatchcase(v["key"], e["key"]):
                matched = e
                break
        if matched is not None:
            seen_known.setdefault(matched["key"], {"entry": matched, "count": 0, "example": v})
            seen_known[matched["key"]]["count"] += 1
        else:
            unlisted.setdefault(v["key"], {"count": 0, "first": v})
            unlisted[v["key"]]["count"] += 1

    lines = []
    for k, d in seen_known.items():
        lines.append(f"KNOWN-FINDING: property={prop} {d['entry']['what']} [key={k}; seen {d['count']}x]")
    os.makedirs(os.path.join(HOME, "replays"), exist_ok=True)
    for k, d in list(unlisted.items())[:25]:
        rp = os.path.join(HOME, "replays", f"{prop}_{h(k)}.json")
        with open(rp, "w") as f:
            json.dump({"property": prop, "key": k, "what": d["first"]["what"], "case": d["first"]["case"],
                       "count": d["count"], "tier": tier, "seed": seed}, f, indent=1, default=str)
        lines.append(f"VIOLATION property={prop} replay={rp}")
        lines.append(f"  what: {d['first']['what']}"[:600])

    unmet = {k: (merged["reach"].get(k, 0), n) for k, n in min_reach.items() if merged["reach"].get(k, 0) < n}
    n_inc = sum(merged["inconclusive"].values())

    cov = {
        "evaluations": merged["evaluations"],
        "distinct_nontrivial": len(merged["hashes"]),
        "rule": rule,
        "samples": merged["samples"][:MAX_SAMPLES] or ["<none>"],
        "reach": merged["reach"],
        "reach_minimum_required": min_reach,
        "inconclusive": {"total": n_inc, "by_reason": merged["inconclusive"],
                         "examples": merged["inconclusive_examples"]},
        "known_findings_seen": {k: d["count"] for k, d in seen_known.items()},
        "unlisted_violation_keys": {k: d["count"] for k, d in unlisted.items()},
        "notes": merged["notes"],
    }
    for k, v in merged["extra"].items():
        cov.setdefault(k, v)
    if extra_cov:
        cov.update(extra_cov)
    if unlisted:
        verdict = "violated"
    elif unmet:
        verdict = "inconclusive"
    else:
        verdict = "held on what was observed"
    cov["verdict"] = verdict
    ev = {
        "property_id": prop, "tier": tier, "seed": seed, "level": "exploration",
        "coverage": cov, "assumptions": assumptions, "wall_s": round(time.time() - t0, 2),
        "violations": len(unlisted),
    }
    err = validate_evidence(ev)
    os.makedirs(os.path.join(HOME, "evidence"), exist_ok=True)
    with open(os.path.join(HOME, "evidence", f"{prop}.json"), "w") as f:
        json.dump(ev, f, indent=1, default=str)
    for ln in lines:
        print(ln)
    print(f"{prop} {tier} seed={seed}: evaluations={merged['evaluations']} distinct={len(merged['hashes'])} "
          f"violations(unlisted keys)={len(unlisted)} known={len(seen_known)} inconclusive={n_inc} "
          f"wall={ev['wall_s']}s verdict={verdict}")
    if merged["inconclusive"]:
        for k, v in sorted(merged["inconclusive"].items(), key=lambda kv: -kv[1])[:8]:
            print(f"  inconclusive[{v}]: {k}")
    if err:
        print(f"INCONCLUSIVE property={prop} reason=evidence does not validate: {err}")
        return 2
    if unlisted:
        return 1
    if unmet:
        print(f"INCONCLUSIVE property={prop} reason=monitors observed too little: {unmet}")
        return 2
    return 0


class Watchdog:
    """signal.alarm based per-case watchdog; firing raises TimeoutError inside the worker.  The alarm re-arms itself
    every second until the guarded block is left, because SymPy/mpmath swallow exceptions in some evalf retry loops."""

    def __init__(self, seconds: int) -> None:
        self.seconds = seconds
        self.fired = False

    def __enter__(self):
        def handler(signum, frame):
            self.fired = True
            signal.alarm(1)
            raise TimeoutError("watchdog")
        # nesting: an enclosing watchdog keeps its own deadline (its remaining time is put back on exit)
        self.outer_left = signal.alarm(0)
        self.t0 = time.time()
        self.old = signal.signal(signal.SIGALRM, handler)
        signal.alarm(min(self.seconds, self.outer_left) if self.outer_left else self.seconds)
        return self

    def __exit__(self, *a):
        signal.alarm(0)
        signal.signal(signal.SIGALRM, self.old)
        if self.outer_left:
            signal.alarm(max(1, math.ceil(self.outer_left - (time.time() - self.t0))))
        return False


def short_tb() -> str:
    return traceback.format_exc()[-1200:]


def run_suite(monitors: str, tests: list[str], rec: "Rec", nworkers: int = 8, timeout: int = 1500) -> None:
    """run the repository's own tests with the runtime monitors attached (vf.pytest_plugin) and fold what the monitors
    observed into `rec`.  The suite must still pass with the monitors on (they record, never raise)."""
    import glob
    evdir = tempfile.mkdtemp(prefix="vf_ev_")
    env = worker_env()
    env["VF_MONITORS"] = monitors
    env["VF_EVENT_DIR"] = evdir
    cmd = [PY, "-m", "pytest", "-q", "-p", "no:cacheprovider", "-p", "vf.pytest_plugin", "-n", str(nworkers)] + tests
    try:
        p = subprocess.run(cmd, cwd=REPO, env=env, timeout=timeout, capture_output=True, text=True, check=False)
        tail = (p.stdout.strip().splitlines() or [""])[-1]
        rec.note(f"suite under monitors [{monitors}] {' '.join(tests)[:80]}: {tail[:120]}")
        if " failed" in tail or " error" in tail:
            rec.inconc("repository tests do not pass with the monitors attached (monitor perturbs the run?)", {"tail": tail, "out": p.stdout[-800:]})
        for f in glob.glob(os.path.join(evdir, "*.json")):
            with open(f) as fh:
                st = json.load(fh)
            for k, n in st.get("counts", {}).items():
                rec.hit("suite:" + k, n)
            for v in st.get("violations", []):
                if v.get("property") in monitors.split(","):
                    rec.violation(v["key"], "during the repository's test run: " + v["what"], v.get("case"))
            for s_ in st.get("samples", []):
                if s_.get("property") in monitors.split(",") and len(rec.samples) < MAX_SAMPLES:
                    rec.sample(dict(s_, workload="repository test-suite under monitor"))
            for n_ in st.get("notes", [])[:2]:
                rec.note(n_[:200])
    except subprocess.TimeoutExpired:
        rec.inconc("watchdog: monitored test-suite run exceeded the wall-clock limit")
    finally:
        shutil.rmtree(evdir, ignore_errors=True)


SUITE_QUICK = ["test/core", "test/dynamics", "test/optics", "test/electricity/vector", "test/kinematics", "test/gravity"]
SUITE_FULL = ["test"]
