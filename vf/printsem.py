"""Shared semantics for the rendering checks (C17 code, C18 LaTeX, C19 pages): leaf environments keyed by display name,
evaluation of the original SymPy tree (ev_sym) and of parsed renderings (parse_code.ev_ast) with the same mpmath functions
and the same opaque stand-ins for undefined functions / derivatives / integrals / sums, and the comparison drivers."""
import ast
import os

import mpmath as mp
import sympy
from sympy import S
from sympy.core.function import AppliedUndef
from sympy.physics.units import Quantity as SymQuantity

from vf.parse_code import ParseError, parse, ev_ast, opaque, ELEM, flat  # noqa

mp.mp.dps = 30


def _lib():
    from symplyphysics.docs.printer_code import code_str
    from symplyphysics.docs.printer_latex import latex_str
    from symplyphysics.core.symbols.symbols import DimensionSymbol
    from symplyphysics.core.operations.symbolic import Symbolic
    return code_str, latex_str, DimensionSymbol, Symbolic


class Unsupported(Exception): pass

def atoms_env(expr, rnd):
    code_str, latex_str, DimensionSymbol, Symbolic = _lib()
    """collect leaf tokens -> value"""
    env={}; clash=set()
    def put(name,key):
        if name in env and env[name][0] is not key and env[name][0]!=key: clash.add(name)
        if name not in env: env[name]=(key, mp.mpf(rnd.uniform(0.3,1.7)))
    for node in sympy.preorder_traversal(expr):
        if isinstance(node, Symbolic): continue
        if isinstance(node, sympy.Idx): put(str(node), node); continue
        if isinstance(node, (sympy.Symbol, SymQuantity)):
            nm = node.display_name if isinstance(node, DimensionSymbol) else str(node.name)
            put(nm, node)
        if isinstance(node, sympy.Indexed):
            b=node.base; put(b.display_name if isinstance(b, DimensionSymbol) else str(b), b)
    return {k:v[1] for k,v in env.items()}, clash

def ev_sym(e, env):
    code_str, latex_str, DimensionSymbol, Symbolic = _lib()
    if isinstance(e, Symbolic):
        s=code_str(e); names=list(env)
        return ev_ast(parse(s, names), env)
    if isinstance(e, sympy.Idx): return env[str(e)]
    if isinstance(e, (sympy.Symbol, SymQuantity)):
        nm = e.display_name if isinstance(e, DimensionSymbol) else str(e.name)
        return env[nm]
    if e.is_Number:
        if e is S.Infinity: return mp.inf
        if e is S.NegativeInfinity: return -mp.inf
        return mp.mpf(sympy.Rational(e).p)/mp.mpf(sympy.Rational(e).q) if e.is_Rational else mp.mpf(float(e)) if False else mp.mpmathify(sympy.N(e,40))
    if e is S.Pi: return mp.pi
    if e is S.Exp1: return mp.e
    if e is S.ImaginaryUnit: return mp.mpc(0,1)
    if isinstance(e, sympy.Add):
        r=mp.mpf(0)
        for a in e.args: r+=ev_sym(a,env)
        return r
    if isinstance(e, sympy.Mul):
        r=mp.mpf(1)
        for a in e.args: r*=ev_sym(a,env)
        return r
    if isinstance(e, sympy.Pow): return mp.power(ev_sym(e.base,env), ev_sym(e.exp,env))
    if isinstance(e, sympy.exp): return mp.exp(ev_sym(e.args[0],env))
    if isinstance(e, sympy.log):
        return mp.log(ev_sym(e.args[0],env)) if len(e.args)==1 else mp.log(ev_sym(e.args[0],env))/mp.log(ev_sym(e.args[1],env))
    if isinstance(e, sympy.Indexed):
        b=e.base; nm=b.display_name if isinstance(b, DimensionSymbol) else str(b)
        return opaque("index",[env[nm]]+[ev_sym(i,env) for i in e.indices])
    if isinstance(e, sympy.Derivative):
        vs=[]
        for v,n in e.variable_count: vs += [ev_sym(v,env), mp.mpf(int(n))]
        return opaque("struct",[ev_sym(e.expr,env)]+vs)
    if isinstance(e, sympy.Integral):
        vals=[ev_sym(e.function,env)]
        for lim in e.limits: vals += [ev_sym(x,env) for x in lim]
        return opaque("struct", vals)
    nm=type(e).__name__
    if nm in ("IndexedSum","IndexedProduct"):
        return opaque("struct",[ev_sym(a,env) for a in e.args])
    if isinstance(e, sympy.Mod):
        from vf.parse_code import modv
        return modv(ev_sym(e.args[0],env), ev_sym(e.args[1],env))
    if isinstance(e, AppliedUndef):
        f=e.func; name=f.display_name if isinstance(f, DimensionSymbol) else f.__name__
        return opaque("fn:"+name,[ev_sym(a,env) for a in e.args])
    if isinstance(e, sympy.Function) and nm in ELEM and len(e.args)==1:
        return ELEM[nm](ev_sym(e.args[0],env))
    raise Unsupported(nm)

def ill_conditioned(sd, env, a):
    """does a 1e-14 relative perturbation of the leaves move the value by more than 1e-11?"""
    try:
        env2 = {k: v * (1 + mp.mpf(10) ** -14) for k, v in env.items()}
        a2 = ev_sym(sd, env2)
        if abs(a - a2) > mp.mpf(10) ** -11 * max(1, abs(a)):
            return True
        # floats are printed with 15 significant digits: does that rounding alone move the value?
        fl = {f: sympy.Float(sympy.Float(f, 15), 30) * (1 + sympy.Float("1e-15", 30)) for f in sd.atoms(sympy.Float)}
        if fl:
            a3 = ev_sym(sd.xreplace(fl), env)
            return abs(a - a3) > mp.mpf(10) ** -11 * max(1, abs(a))
        return False
    except Exception:  # pylint: disable=broad-except
        return False


def fin(v): 
    return mp.isfinite(v) if not isinstance(v, list) else all(fin(x) for x in v)

def fn_latex_name(f):
    """how a function called <display_latex> is written in LaTeX by SymPy's own convention (recognised names get a
    backslash, single letters stay, longer names go into \\operatorname{}, subscripts are braced) - computed with SymPy's
    helper, not with the repository's printer"""
    from sympy.printing.latex import LatexPrinter
    return LatexPrinter()._hprint_Function(f.display_latex)  # pylint: disable=protected-access


def missing_symbols(expr, rendering, printer):
    """'symbols appear under their display names': every free symbol of the expression, printed on its own, occurs in the
    rendering (substring test: deliberately weak, the value comparison does the rest)"""
    out = []
    DimensionSymbol = _lib()[2]
    try:
        free = sorted(expr.free_symbols, key=str)
    except Exception:  # pylint: disable=broad-except
        return out
    for sym in free:
        if not (isinstance(sym, sympy.Symbol) and isinstance(sym, DimensionSymbol)):
            continue  # (labels of indexed bases and indices are internal objects without a display name of their own)
        try:
            nm = printer(sym)
        except Exception:  # pylint: disable=broad-except
            continue
        if nm and nm not in rendering:
            out.append((nm, sym))
    # applied library functions: the call must show the function's display name
    try:
        for fa in expr.atoms(AppliedUndef):
            f = fa.func
            if not isinstance(f, DimensionSymbol):
                continue
            is_latex = getattr(printer, "__name__", "") == "latex_str"
            want = fn_latex_name(f) if is_latex else f.display_name + "("
            if want and want not in rendering:
                return ["function " + want]
    except Exception:  # pylint: disable=broad-except
        pass
    if not out:
        return []
    # a symbol that cancels out of the value (rho / (35000 * rho)) may legitimately vanish from a rendering: only symbols the
    # value depends on count
    sides = [expr.lhs, expr.rhs] if isinstance(expr, sympy.Equality) else [expr]
    import random as _random
    env, clash = atoms_env(expr, _random.Random(12345))
    if clash:
        return []
    dependent = []
    for nm, sym in out:
        key = sym.display_name
        try:
            env2 = dict(env)
            env2[key] = env[key] * mp.mpf("1.37") + mp.mpf("0.21")
            if any(abs(ev_sym(sd, env) - ev_sym(sd, env2)) > mp.mpf(10) ** -12 for sd in sides if sd.has(sym)):
                dependent.append(nm)
        except Exception:  # pylint: disable=broad-except
            continue
    return dependent


def compare(expr, rnd, trials=3):
    """returns ('ok'|'viol'|'inconclusive', detail, rendering)"""
    code_str, latex_str, DimensionSymbol, Symbolic = _lib()
    s=code_str(expr)
    sides=[expr.lhs, expr.rhs] if isinstance(expr, sympy.Equality) else [expr]
    missing = missing_symbols(expr, s, code_str)
    if missing:
        return ("viol", "symbol(s) of the expression absent from the rendering: " + ", ".join(missing), s)
    decided=0
    for t in range(trials):
        env,clash=atoms_env(expr, rnd)
        if clash: return ("inconclusive","name clash "+str(clash), s)
        try:
            tree=parse(s, list(env))
        except ParseError as x: return ("inconclusive","parse: "+str(x)[:80], s)
        parts=[tree[1],tree[2]] if tree[0]=="eq" else [tree]
        if len(parts)!=len(sides): return ("viol","eq shape", s)
        for pt, sd in zip(parts, sides):
            try:
                a=ev_sym(sd, env)
            except Unsupported as x: return ("inconclusive","orig unsupported "+str(x), s)
            except (ParseError,) as x: return ("inconclusive","orig parse "+str(x)[:60], s)
            except Exception as x: return ("inconclusive","orig eval "+repr(x)[:60], s)
            try:
                b=ev_ast(pt, env)
            except ParseError as x: return ("inconclusive","ast: "+str(x)[:80], s)
            except Exception as x: return ("inconclusive","ast eval "+repr(x)[:60], s)
            if isinstance(a,list) or isinstance(b,list): return ("inconclusive","list value", s)
            if not (fin(a) and fin(b)): continue
            decided+=1
            if abs(a-b) > mp.mpf(10)**-10 * max(1,abs(a),abs(b)):
                if abs(a-mp.conj(b)) <= mp.mpf(10)**-10 * max(1,abs(a),abs(b)):
                    return ("inconclusive", "on a branch cut at the sample point (the 15-digit printing of a float decides the side)", s)
                if ill_conditioned(sd, env, a):
                    return ("inconclusive", "ill-conditioned at the sample point (15-digit float printing decides)", s)
                return ("viol", f"{mp.nstr(a,12)} vs {mp.nstr(b,12)} env={ {k:mp.nstr(v,6) for k,v in env.items()} }", s)
    return ("ok" if decided else "inconclusive", "no finite sample" if not decided else "", s)



def latex_env(expr, env):
    code_str, latex_str, DimensionSymbol, Symbolic = _lib()
    """latex token -> value, and function latex name -> code name"""
    lenv={}; fn={}
    for node in sympy.preorder_traversal(expr):
        if isinstance(node, Symbolic):
            lenv[latex_str(node)] = ev_sym(node, env); continue
        if isinstance(node, sympy.Idx): lenv[latex_str(node)] = env[str(node)]; continue
        if isinstance(node, (sympy.Symbol, SymQuantity)):
            nm = node.display_name if isinstance(node, DimensionSymbol) else str(node.name)
            lenv[latex_str(node)] = env[nm]
        if isinstance(node, sympy.Indexed):
            b=node.base; nm=b.display_name if isinstance(b, DimensionSymbol) else str(b)
            lenv[b.display_latex if isinstance(b, DimensionSymbol) else str(b)] = env[nm]
        if isinstance(node, AppliedUndef):
            f=node.func
            if isinstance(f, DimensionSymbol): fn[fn_latex_name(f)]=f.display_name
            else: fn[f.__name__]=f.__name__
    return lenv, fn

def rename_fn(tree, fn):
    if isinstance(tree, tuple):
        if tree[0]=="name" and tree[1].startswith("FN:"):
            return ("name", fn[tree[1][3:]])
        return tuple(rename_fn(x, fn) for x in tree)
    if isinstance(tree, list): return [rename_fn(x, fn) for x in tree]
    return tree

def compare_latex(expr, rnd, trials=3):
    from vf.parse_latex import parse_latex_all, check_balanced
    code_str, latex_str, DimensionSymbol, Symbolic = _lib()
    s = latex_str(expr)
    bal = check_balanced(s)
    if bal:
        return ("viol", "unbalanced: " + bal, s)
    missing = missing_symbols(expr, s, latex_str)
    if missing:
        return ("viol", "symbol(s) of the expression absent from the rendering: " + ", ".join(missing), s)
    sides = [expr.lhs, expr.rhs] if isinstance(expr, sympy.Equality) else [expr]
    envs = []
    for t in range(trials):
        env, clash = atoms_env(expr, rnd)
        try:
            lenv, fn = latex_env(expr, env)
        except Exception as x:  # pylint: disable=broad-except
            return ("inconclusive", "latex env " + repr(x)[:60], s)
        if "i" not in lenv:
            lenv["i"] = mp.mpc(0, 1)
        envs.append((env, lenv, fn))
    env, lenv, fn = envs[0]
    try:
        trees = [rename_fn(tr, fn) for tr in parse_latex_all(s, list(lenv), list(fn))]
    except ParseError as x:
        return ("inconclusive", "parse: " + str(x)[:90], s)
    except Exception as x:  # pylint: disable=broad-except
        return ("inconclusive", "parse crash: " + repr(x)[:90], s)
    # original values per trial
    origs = []
    for env, lenv, fn in envs:
        row = []
        for sd in sides:
            try:
                row.append(ev_sym(sd, env))
            except Unsupported as x:
                return ("inconclusive", "orig unsupported " + str(x), s)
            except Exception as x:  # pylint: disable=broad-except
                return ("inconclusive", "orig eval " + repr(x)[:60], s)
        origs.append(row)
    verdicts = []
    for tree in trees:
        parts = [tree[1], tree[2]] if tree[0] == "eq" else [tree]
        if len(parts) != len(sides):
            verdicts.append(("viol", "eq shape"))
            continue
        decided = 0
        v = None
        for (env, lenv, fn), row in zip(envs, origs):
            for pt, a, sd in zip(parts, row, sides):
                try:
                    b = ev_ast(pt, dict(lenv))
                except ParseError as x:
                    v = ("inconclusive", "ast: " + str(x)[:80])
                    break
                except Exception as x:  # pylint: disable=broad-except
                    v = ("inconclusive", "ast eval " + repr(x)[:60])
                    break
                if isinstance(a, list) or isinstance(b, list):
                    v = ("inconclusive", "list value")
                    break
                if not (fin(a) and fin(b)):
                    continue
                decided += 1
                if abs(a - b) > mp.mpf(10) ** -10 * max(1, abs(a), abs(b)):
                    if abs(a - mp.conj(b)) <= mp.mpf(10) ** -10 * max(1, abs(a), abs(b)):
                        v = ("inconclusive", "on a branch cut at the sample point (the 15-digit printing of a float decides the side)")
                    elif ill_conditioned(sd, env, a):
                        v = ("inconclusive", "ill-conditioned at the sample point (15-digit float printing decides)")
                    else:
                        v = ("viol", f"{mp.nstr(a, 12)} vs {mp.nstr(b, 12)}")
                    break
            if v is not None:
                break
        if v is None:
            v = ("ok", "") if decided else ("inconclusive", "no finite sample")
        verdicts.append(v)
        if v[0] == "ok":
            return ("ok", "", s)
    if all(v[0] == "viol" for v in verdicts):
        return ("viol", verdicts[0][1] + (f" (under all {len(verdicts)} admissible readings)" if len(verdicts) > 1 else ""), s)
    inc = [v for v in verdicts if v[0] == "inconclusive"]
    return ("inconclusive", inc[0][1], s)


def make_generator(rnd):
    """canonical (auto-evaluated) expression trees over library symbols"""
    from symplyphysics import Symbol
    from sympy import Rational, sqrt, sin, cos, exp, log, Abs, tan, sinh, atan
    from symplyphysics import Function
    syms = [Symbol(n) for n in ["a", "b", "c", "x_1", "y", "T_lab", "rho"]]
    # library functions, some with display names that SymPy's printers know as special functions (beta, gamma, zeta, euler,
    # Max): they are undefined functions and must be printed as calls of their display name
    funs = [Function(n, [syms[0]], **kw) for n, kw in [("f", {}), ("Phi", {}), ("N_0", {}), ("beta", {}), ("gamma", {}), ("zeta", {}),
                                                        ("euler", {}), ("Max", {}), ("u", {"display_latex": "\\mathbf{u}"})]]
    funs2 = [Function(n, [syms[0], syms[1]]) for n in ("g", "beta", "psi")]

    def gen(d):
        k = rnd.random()
        if d <= 0 or k < 0.25:
            k2 = rnd.random()
            if k2 < 0.6:
                return rnd.choice(syms)
            if k2 < 0.8:
                return sympy.Integer(rnd.choice([-3, -2, -1, 2, 3, 5, 10]))
            if k2 < 0.88:
                return Rational(rnd.choice([-3, -1, 1, 2, 5]), rnd.choice([2, 3, 4, 7]))
            if k2 < 0.93:
                return rnd.choice([sympy.pi, sqrt(2), sympy.E, sqrt(3) / 2])  # irrational constants: number-only sums 1 + sqrt(2)
            return sympy.Float(rnd.choice([0.5, -1.25, 2.405, 1e-3, 3.5e4, -3.5e-8]))
        if k < 0.45:
            return gen(d - 1) + gen(d - 1)
        if k < 0.55:
            return gen(d - 1) - gen(d - 1)
        if k < 0.72:
            return gen(d - 1) * gen(d - 1)
        if k < 0.85:
            return gen(d - 1) / gen(d - 1)
        if k < 0.93:
            e = rnd.choice([2, 3, -1, -2, Rational(1, 2), Rational(-1, 2), Rational(3, 2), Rational(1, 3), Rational(-2, 3), rnd.choice(syms), -rnd.choice(syms),
                            rnd.choice(syms) + 1, 1 / rnd.choice(syms), 1 / sqrt(rnd.choice(syms)), Rational(1, 4)])
            return gen(d - 1) ** e
        if rnd.random() < 0.08:
            # a power whose base is an exponential or another elementary function, with exponents of more than one token
            base = rnd.choice([exp, sin, cos, sinh, tan])(gen(d - 1))
            return base ** rnd.choice([Rational(3, 2), rnd.choice(syms), -rnd.choice(syms), 10, 12, rnd.choice(syms) + 1, Rational(1, 3), -2])
        if rnd.random() < 0.04:
            return sympy.Mod(gen(d - 1), rnd.choice(syms + [sympy.Integer(3), sympy.Integer(5)]))   # an infix operator of low precedence in LaTeX
        if rnd.random() < 0.25:
            f = rnd.choice(funs)
            return f(gen(d - 1)) if rnd.random() < 0.7 else rnd.choice(funs2)(gen(d - 1), rnd.choice(syms))
        f = rnd.choice([sin, cos, exp, log, Abs, sqrt, tan, sinh, atan])
        if f is log and rnd.random() < 0.3:
            return log(gen(d - 1), rnd.choice([2, 10]))
        return f(gen(d - 1))
    return gen


def documented_members(module_name, repo):
    """the documented source form of a module's members, obtained exactly as the documentation does"""
    from symplyphysics.docs.patch import patch_sympy_evaluate
    from symplyphysics.docs.parse import find_members_and_functions
    p = os.path.join(repo, module_name.replace(".", "/") + ".py")
    with open(p, encoding="utf-8") as f:
        mod = ast.parse(f.read())
    if ast.get_docstring(mod) is None:
        return []
    members, _ = find_members_and_functions(patch_sympy_evaluate(mod))
    return [m for m in members if m.directives]
