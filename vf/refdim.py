"""Independent reference dimension algebra over SymPy trees (C01, C04, C06).
A dimension is a dict {base name: exponent (sympy Rational or symbolic Expr)} with `angle` erased, or ANY.
Leaves take their vector from SymPy's dimsys_SI expansion of the *declared* Dimension (SymPy is trusted);
the repository's collect_* / assert_equivalent_dimension are never called."""
import sympy
from sympy import S, Rational, Expr
from sympy.physics.units import Dimension, Quantity as SymQuantity
from sympy.physics.units.systems.si import dimsys_SI, SI
from sympy.core.function import AppliedUndef
from sympy.core.relational import Relational

ANY = "ANY"
VALUE_AWARE = False          # C06: a term whose canonical value is literally 0/+-oo/nan is ANY
STRICT_FUNCTION_ARGS = True  # C01: arguments of exp/trig/hyperbolic must be dimensionless (C06: the library allows them)


def configure(value_aware=None, strict_function_args=None):
    global VALUE_AWARE, STRICT_FUNCTION_ARGS  # pylint: disable=global-statement
    if value_aware is not None:
        VALUE_AWARE = value_aware
    if strict_function_args is not None:
        STRICT_FUNCTION_ARGS = strict_function_args


def canonical_any(e) -> bool:
    """value-aware ANY: with quantities replaced by their scale factors (symbols left symbolic, SymPy auto-evaluation
    only) the sub-expression is literally zero, infinite or NaN"""
    try:
        qs = {q: sympy.sympify(q.scale_factor) for q in e.atoms(SymQuantity)}
        v = e.xreplace(qs) if qs else e
    except Exception:  # pylint: disable=broad-except
        return False
    if v in (S.Infinity, S.NegativeInfinity, S.NaN):
        return True
    if v.is_zero is True and v.is_number:
        return True
    # a product with a literally infinite factor and no zero factor is an infinite term (oo/f(x))
    if isinstance(v, sympy.Mul) and any(a in (S.Infinity, S.NegativeInfinity) for a in v.args) \
            and not any(a.is_zero for a in v.args):
        return True
    return False


class Inhomogeneous(Exception):
    def __init__(self, kind, node, detail):
        super().__init__(f"{kind}: {detail} in {node}")
        self.kind = kind
        self.node = node
        self.detail = detail


class Unsupported(Exception):
    pass


def deps(dim):
    if type(dim).__name__ == "AnyDimension":
        return ANY
    d = dimsys_SI.get_dimensional_dependencies(dim)
    out = {}
    for k, v in d.items():
        k = str(getattr(k, "name", k))
        if k == "angle":
            continue
        if v != 0:
            out[k] = sympy.nsimplify(v) if not isinstance(v, Expr) else v
    return out


def dmul(a, b):
    if a == ANY or b == ANY:
        return ANY
    out = dict(a)
    for k, v in b.items():
        nv = sympy.simplify(out.get(k, 0) + v)
        if nv == 0:
            out.pop(k, None)
        else:
            out[k] = nv
    return out


def dpow(a, e):
    if a == ANY:
        return ANY
    out = {}
    for k, v in a.items():
        nv = sympy.simplify(v * e)
        if nv != 0:
            out[k] = nv
    return out


def deq(a, b):
    if a == ANY or b == ANY:
        return True
    keys = set(a) | set(b)
    for k in keys:
        if sympy.simplify(a.get(k, 0) - b.get(k, 0)) != 0:
            return False
    return True


def deq_num(a, b, tol=1e-9):
    """numeric comparison of exponent dicts (float exponents)"""
    if a == ANY or b == ANY:
        return True
    for k in set(a) | set(b):
        d = sympy.N(sympy.sympify(a.get(k, 0)) - sympy.sympify(b.get(k, 0)))
        if not d.is_number:
            return deq(a, b)
        if abs(complex(d)) > tol:
            return False
    return True


def is_dimless(a):
    return a == ANY or len(a) == 0


def fmt(a):
    if a == ANY:
        return ANY
    return "*".join(f"{k}^{v}" for k, v in sorted(a.items())) or "1"


STRICT_DIMLESS_ARG = (
    sympy.exp, sympy.sin, sympy.cos, sympy.tan, sympy.cot, sympy.sec, sympy.csc,
    sympy.sinh, sympy.cosh, sympy.tanh, sympy.coth, sympy.sech, sympy.csch,
)


NONDIRECT_ANY_USED = False  # set when an ANY decision relied on zero-ness the library cannot see (not a direct factor)


def direct_any(a) -> bool:
    """the zero/infinite value is visible without evaluation: an any-valued number or quantity, or a product with such a
    direct factor"""
    def leaf_any(x):
        if isinstance(x, SymQuantity):
            return canonical_any(x)
        return x.is_Number and canonical_any(x)
    if leaf_any(a):
        return True
    if isinstance(a, sympy.Mul):
        return any(leaf_any(f) for f in a.args)
    return False


def common(dims, node, kind):
    global NONDIRECT_ANY_USED  # pylint: disable=global-statement
    ref = ANY
    if VALUE_AWARE and hasattr(node, "args"):
        new = []
        for a, d in zip(node.args, dims):
            if canonical_any(a):
                if not direct_any(a):
                    NONDIRECT_ANY_USED = True
                d = ANY
            new.append(d)
        dims = new
    for d in dims:
        if d == ANY:
            continue
        if ref == ANY:
            ref = d
            continue
        if not deq(ref, d):
            raise Inhomogeneous(kind, node, f"{fmt(ref)} vs {fmt(d)}")
    return ref


def _matmul(a, b, node):
    """entry (i, j) = common dimension of a[i][k]*b[k][j] over k"""
    if len(a[0]) != len(b):
        raise Inhomogeneous("shape", node, "matrix product shapes")
    saved = VALUE_AWARE
    out = []
    for i in range(len(a)):
        row = []
        for j in range(len(b[0])):
            terms = [dmul(a[i][k], b[k][j]) for k in range(len(b))]
            ref = ANY
            for d in terms:
                if d == ANY:
                    continue
                if ref == ANY:
                    ref = d
                elif not deq(ref, d):
                    raise Inhomogeneous("matrix-product", node, f"entry [{i},{j}]: {fmt(ref)} vs {fmt(d)}")
            row.append(ref)
        out.append(row)
    return out


def refdim(e, stats=None):
    # returns dict | ANY | matrix(list of lists)
    if isinstance(e, (int, float, complex)):
        e = sympy.sympify(e)
    if isinstance(e, sympy.MatrixBase):
        return [[refdim(e[i, j], stats) for j in range(e.shape[1])] for i in range(e.shape[0])]
    if isinstance(e, Relational):
        l = refdim(e.lhs, stats)
        r = refdim(e.rhs, stats)
        if isinstance(l, list) or isinstance(r, list):
            if not (isinstance(l, list) and isinstance(r, list)):
                raise Unsupported("matrix vs scalar relation")
            if len(l) != len(r) or len(l[0]) != len(r[0]):
                raise Inhomogeneous("shape", e, "matrix shape")
            for i in range(len(l)):
                for j in range(len(l[0])):
                    if not deq(l[i][j], r[i][j]):
                        raise Inhomogeneous("relation", e, f"[{i},{j}] {fmt(l[i][j])} vs {fmt(r[i][j])}")
            return {}
        if not deq(l, r):
            raise Inhomogeneous("relation", e, f"{fmt(l)} vs {fmt(r)}")
        return {}
    if e.is_Number:
        if e.is_zero or e in (S.Infinity, S.NegativeInfinity, S.NaN, S.ComplexInfinity):
            return ANY
        return {}
    if isinstance(e, (sympy.NumberSymbol,)) or e is S.ImaginaryUnit:
        return {}
    if isinstance(e, SymQuantity):
        if VALUE_AWARE and canonical_any(e):
            return ANY
        d = getattr(e, "dimension", None)
        return deps(d if d is not None else SI.get_quantity_dimension(e))
    if isinstance(e, sympy.Symbol):
        if hasattr(e, "factor") and type(e).__mro__[1].__name__ == "Symbolic":
            return refdim(e.factor, stats)
        if hasattr(e, "dimension"):
            return deps(e.dimension)
        if stats is not None:
            stats["undeclared"] = stats.get("undeclared", 0) + 1
        return ANY
    if isinstance(e, sympy.Indexed):
        b = e.base
        if hasattr(b, "dimension"):
            return deps(b.dimension)
        return ANY
    if isinstance(e, (sympy.Mul, sympy.MatMul)):
        out = {}
        mat = None
        for a in e.args:
            d = refdim(a, stats)
            if isinstance(d, list):
                mat = d if mat is None else _matmul(mat, d, e)
            else:
                out = dmul(out, d)
        if mat is not None:
            return [[dmul(out, x) for x in row] for row in mat]
        return out
    if isinstance(e, sympy.MatAdd):
        ms = [refdim(a, stats) for a in e.args]
        if not all(isinstance(m, list) for m in ms):
            raise Unsupported("MatAdd of non-matrix")
        r0 = ms[0]
        for m in ms[1:]:
            if len(m) != len(r0) or len(m[0]) != len(r0[0]):
                raise Inhomogeneous("shape", e, "matrix shapes in sum")
            r0 = [[common([r0[i][j], m[i][j]], e, "matrix-sum") for j in range(len(m[0]))] for i in range(len(m))]
        return r0
    if isinstance(e, sympy.Pow):
        b = refdim(e.base, stats)
        x = refdim(e.exp, stats)
        if isinstance(b, list):
            raise Unsupported("matrix power")
        if not is_dimless(x):
            raise Inhomogeneous("exponent", e, f"exponent has dimension {fmt(x)}")
        if b == ANY or len(b) == 0:
            return b if b == ANY else {}
        ex = e.exp
        if ex.atoms(SymQuantity):  # dimensionless quantities in an exponent count with their value
            ex = ex.xreplace({q: sympy.sympify(q.scale_factor) for q in ex.atoms(SymQuantity)})
        return dpow(b, ex)
    if isinstance(e, sympy.Add):
        return common([refdim(a, stats) for a in e.args], e, "sum")
    if isinstance(e, (sympy.Max, sympy.Min)):
        return common([refdim(a, stats) for a in e.args], e, "minmax")
    if isinstance(e, (sympy.conjugate, sympy.re, sympy.im)) and not STRICT_FUNCTION_ARGS:
        raise Unsupported("re/im/conjugate (not covered by the C06 statement)")
    if isinstance(e, (sympy.Abs, sympy.conjugate, sympy.re, sympy.im)):
        return refdim(e.args[0], stats)
    if isinstance(e, sympy.Derivative):
        d = refdim(e.expr, stats)
        for v, n in e.variable_count:
            d = dmul(d, dpow(refdim(v, stats), -n))
        return d
    if isinstance(e, sympy.Integral):
        d = refdim(e.function, stats)
        for lim in e.limits:
            v = lim[0]
            dv = refdim(v, stats)
            for b in lim[1:]:
                db = refdim(b, stats)
                if not deq(dv, db):
                    raise Inhomogeneous("limit", e, f"{fmt(dv)} vs {fmt(db)}")
            d = dmul(d, dv)
        return d
    if isinstance(e, sympy.Piecewise):
        ds = []
        for ex, cond in e.args:
            ds.append(refdim(ex, stats))
            if isinstance(cond, Relational):
                refdim(cond, stats)
        return common(ds, e, "piecewise")
    name = type(e).__name__
    if name == "IndexedSum":
        return refdim(e.args[0], stats)
    if name == "IndexedProduct":
        d = refdim(e.args[0], stats)
        if is_dimless(d):
            return d
        return ANY
    if isinstance(e, sympy.Sum):
        return refdim(e.function, stats)
    if isinstance(e, STRICT_DIMLESS_ARG):
        for a in e.args:
            d = refdim(a, stats)
            if STRICT_FUNCTION_ARGS and not is_dimless(d):
                raise Inhomogeneous("function-arg", e, f"argument has dimension {fmt(d)}")
        return {}
    if isinstance(e, AppliedUndef):
        for a in e.args:
            refdim(a, stats)
        f = e.func
        if hasattr(f, "dimension"):
            return deps(f.dimension)
        return ANY
    if isinstance(e, sympy.Order):
        return ANY
    if name in ("Laplacian", "Gradient", "Divergence", "Curl", "BaseScalar"):
        return ANY
    if isinstance(e, sympy.Function):
        for a in e.args:
            refdim(a, stats)
        return {}
    raise Unsupported(name)
