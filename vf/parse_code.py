"""name-aware parser for symplyphysics 'code' renderings and a common
numeric semantics for parsed ASTs and original sympy trees."""
import re, hashlib
import mpmath as mp
import sympy
from sympy import S

IDENT = re.compile(r"[A-Za-z_][A-Za-z_0-9]*")
NUM = re.compile(r"\d+\.?\d*(?:[eE][+-]?\d+)?|\.\d+(?:[eE][+-]?\d+)?")


class ParseError(Exception):
    pass


def tokenize(s, names):
    names = sorted(set(n for n in names if n), key=len, reverse=True)
    toks = []
    i = 0
    n = len(s)
    while i < n:
        c = s[i]
        if c.isspace():
            i += 1
            continue
        # known names first (longest); must not be a strict prefix of a longer identifier
        hit = None
        for nm in names:
            if s.startswith(nm, i):
                end = i + len(nm)
                # if the name ends with an identifier char and the text continues with identifier chars,
                # it is a different identifier
                if re.match(r"[A-Za-z_0-9]", nm[-1]) and end < n and re.match(r"[A-Za-z_0-9]", s[end]):
                    continue
                hit = nm
                break
        m = IDENT.match(s, i)
        if hit is not None and (m is None or len(hit) >= len(m.group(0))):
            toks.append(("name", hit))
            i += len(hit)
            continue
        if m:
            toks.append(("name", m.group(0)))
            i = m.end()
            continue
        m = NUM.match(s, i)
        if m:
            toks.append(("num", m.group(0)))
            i = m.end()
            continue
        if c in "+-*/^()[],=":
            toks.append((c, c))
            i += 1
            continue
        raise ParseError(f"bad char {c!r} at {i} in {s!r}")
    toks.append(("eof", None))
    return toks


class P:
    def __init__(self, toks):
        self.t = toks
        self.i = 0

    def peek(self):
        return self.t[self.i][0]

    def next(self):
        tok = self.t[self.i]
        self.i += 1
        return tok

    def expect(self, k):
        if self.peek() != k:
            raise ParseError(f"expected {k} got {self.t[self.i]}")
        return self.next()

    def equation(self):
        l = self.expr()
        if self.peek() == "=":
            self.next()
            r = self.expr()
            self.expect("eof")
            return ("eq", l, r)
        self.expect("eof")
        return l

    def expr(self):
        node = self.term()
        while self.peek() in "+-" and self.peek() in ("+", "-"):
            op = self.next()[0]
            r = self.term()
            node = ("add", node, r) if op == "+" else ("add", node, ("neg", r))
        return node

    def term(self):
        node = self.unary()
        while self.peek() in ("*", "/"):
            op = self.next()[0]
            r = self.unary()
            node = ("mul", node, r) if op == "*" else ("div", node, r)
        return node

    def unary(self):
        if self.peek() == "-":
            self.next()
            return ("neg", self.unary())
        if self.peek() == "+":
            self.next()
            return self.unary()
        return self.power()

    def power(self):
        base = self.postfix()
        if self.peek() == "^":
            self.next()
            e = self.unary()  # right assoc, allows -x
            return ("pow", base, e)
        return base

    def postfix(self):
        node = self.atom()
        while True:
            if self.peek() == "(" and node[0] in ("name", "call"):
                # call: name(args) or call(args) e.g. Laplace(Phi)(x)
                self.next()
                args = self.args(")")
                node = ("call", node, args)
            elif self.peek() == "[" and node[0] == "name":
                self.next()
                args = self.args("]")
                node = ("index", node, args)
            else:
                return node

    def args(self, close):
        out = []
        if self.peek() == close:
            self.next()
            return out
        while True:
            out.append(self.expr())
            if self.peek() == ",":
                self.next()
                continue
            self.expect(close)
            return out

    def atom(self):
        k, v = self.next()
        if k == "num":
            return ("num", v)
        if k == "name":
            return ("name", v)
        if k == "(":
            first = self.expr()
            if self.peek() == ",":
                items = [first]
                while self.peek() == ",":
                    self.next()
                    items.append(self.expr())
                self.expect(")")
                return ("tuple", items)
            self.expect(")")
            return first
        if k == "[":
            items = self.args("]")
            return ("list", items)
        raise ParseError(f"unexpected {k} {v}")


def parse(s, names):
    return P(tokenize(s, names)).equation()


# ---------- common numeric semantics

def _h(*parts):
    d = hashlib.sha256("|".join(map(str, parts)).encode()).digest()
    return [int.from_bytes(d[i:i + 4], "big") / 2**32 for i in range(0, 32, 4)]


def opaque(tag, vals):
    """deterministic smooth function of the evaluated arguments"""
    c = _h("opq", tag, len(vals))
    acc = mp.mpc(0.37 + c[0])
    for k, v in enumerate(vals):
        ck = _h("opq", tag, len(vals), k)
        acc += (0.5 + ck[0]) * v + (0.1 + 0.2 * ck[1]) * v * v * (k + 1) * 0.01
    return mp.sin(acc) + 1.5 + c[1]


def flat(v):
    if isinstance(v, list):
        out = []
        for x in v:
            out.extend(flat(x))
        return out
    return [v]


ELEM = {
    "sqrt": mp.sqrt, "exp": mp.exp, "sin": mp.sin, "cos": mp.cos, "tan": mp.tan, "cot": mp.cot,
    "sinh": mp.sinh, "cosh": mp.cosh, "tanh": mp.tanh, "coth": mp.coth, "asin": mp.asin, "acos": mp.acos,
    "atan": mp.atan, "asinh": mp.asinh, "acosh": mp.acosh, "atanh": mp.atanh, "Abs": abs, "abs": abs,
    "factorial": mp.factorial, "conjugate": mp.conj, "re": mp.re, "im": mp.im,
}
CONST = {"pi": mp.pi, "I": mp.mpc(0, 1), "oo": mp.inf, "E": mp.e}


def modv(a, b):
    """a mod b with the sign of the divisor (real operands; anything else is compared as an opaque function of both)"""
    if (isinstance(a, mp.mpc) and a.imag != 0) or (isinstance(b, mp.mpc) and b.imag != 0) or b == 0:
        return opaque("fn:Mod", [a, b])
    a, b = mp.re(a), mp.re(b)
    if abs(a / b) > mp.mpf(10) ** 12:
        return opaque("fn:Mod", [a, b])   # the residue of a quotient this large is not determined at working precision
    return a - b * mp.floor(a / b)


def ev_ast(n, env):
    k = n[0]
    if k == "num":
        return mp.mpf(n[1])
    if k == "name":
        if n[1] in env:
            return env[n[1]]
        if n[1] in CONST:
            return CONST[n[1]]
        raise ParseError(f"unknown name {n[1]}")
    if k == "neg":
        return -ev_ast(n[1], env)
    if k == "add":
        return ev_ast(n[1], env) + ev_ast(n[2], env)
    if k == "mul":
        return ev_ast(n[1], env) * ev_ast(n[2], env)
    if k == "div":
        return ev_ast(n[1], env) / ev_ast(n[2], env)
    if k == "pow":
        return mp.power(ev_ast(n[1], env), ev_ast(n[2], env))
    if k in ("tuple", "list"):
        return [ev_ast(x, env) for x in n[1]]
    if k == "index":
        return opaque("index", [ev_ast(n[1], env)] + flat([ev_ast(a, env) for a in n[2]]))
    if k == "call":
        head = n[1]
        args = [ev_ast(a, env) for a in n[2]]
        if head[0] == "name":
            f = head[1]
            if f == "log":
                return mp.log(args[0]) if len(args) == 1 else mp.log(args[0]) / mp.log(args[1])
            if f in ELEM and len(args) == 1 and not isinstance(args[0], list):
                return ELEM[f](args[0])
            if f == "Mod" and len(args) == 2 and not any(isinstance(a_, list) for a_ in args):
                return modv(args[0], args[1])
            if f in ("min", "max", "Min", "Max"):
                pass
            if f == "Derivative":
                # normalise variables to (var, count) pairs
                vs = []
                for a in args[1:]:
                    vs.extend(a if isinstance(a, list) else [a, mp.mpf(1)])
                return opaque("struct", [args[0]] + flat(vs))
            if f in ("Integral", "Sum", "Product"):
                return opaque("struct", flat(args))
            if f in env and False:
                pass
            # undefined function by display name, or symbolic wrapper
            return opaque("fn:" + f, flat(args))
        # call of a call: Laplace(Phi)(x)
        return opaque("callcall", flat([ev_ast(head, env)] + args))
    if k == "eq":
        raise ParseError("nested eq")
    raise ParseError("node " + k)
