"""Own coordinate transforms, written from the definitions (NOT from the library's tables).
Core (symplyphysics.core.coordinate_systems) convention: cylindrical (r, theta, z); spherical (r, theta=azimuth, phi=polar).
Experimental (symplyphysics.core.experimental.coordinate_systems) convention is ISO: cylindrical (rho, phi, z);
spherical (r, theta=polar, phi=azimuth)."""
from __future__ import annotations

import math


def cart_to_cyl(x, y, z):
    return (math.hypot(x, y), math.atan2(y, x), z)


def cyl_to_cart(rho, az, z):
    return (rho * math.cos(az), rho * math.sin(az), z)


def cart_to_sph(x, y, z):
    """-> (r, azimuth, polar)"""
    r = math.sqrt(x * x + y * y + z * z)
    return (r, math.atan2(y, x), math.acos(z / r))


def sph_to_cart(r, az, polar):
    return (r * math.sin(polar) * math.cos(az), r * math.sin(polar) * math.sin(az), r * math.cos(polar))


def dot3(a, b):
    return a[0] * b[0] + a[1] * b[1] + a[2] * b[2]


def cross3(a, b):
    return (a[1] * b[2] - a[2] * b[1], a[2] * b[0] - a[0] * b[2], a[0] * b[1] - a[1] * b[0])


def norm3(a):
    return math.sqrt(dot3(a, a))


def close(a, b, tol=1e-9):
    return abs(a - b) <= tol * max(1.0, abs(a), abs(b))


def angle_close(a, b, tol=1e-9):
    d = (a - b) % (2 * math.pi)
    return min(d, 2 * math.pi - d) <= tol


# local orthonormal bases (as Cartesian vectors) at a point
def cyl_basis(az):
    return ((math.cos(az), math.sin(az), 0.0), (-math.sin(az), math.cos(az), 0.0), (0.0, 0.0, 1.0))  # e_rho, e_az, e_z


def sph_basis(az, polar):
    e_r = (math.sin(polar) * math.cos(az), math.sin(polar) * math.sin(az), math.cos(polar))
    e_polar = (math.cos(polar) * math.cos(az), math.cos(polar) * math.sin(az), -math.sin(polar))
    e_az = (-math.sin(az), math.cos(az), 0.0)
    return e_r, e_polar, e_az
