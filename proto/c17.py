import ast, os, json, sys, collections, random, traceback
sys.path.insert(0,"/tmp/scratch")
import mpmath as mp
mp.mp.dps=30
import sympy
from sympy import S
from parse_code import *
from symplyphysics.docs.patch import patch_sympy_evaluate
from symplyphysics.docs.parse import find_members_and_functions
from symplyphysics.docs.printer_code import code_str
from symplyphysics.core.symbols.symbols import DimensionSymbol, Function as SFunction, IndexedSymbol
from symplyphysics.core.operations.symbolic import Symbolic
from sympy.physics.units import Quantity as SymQuantity
from sympy.core.function import AppliedUndef

class Unsupported(Exception): pass

def atoms_env(expr, rnd):
    """collect leaf tokens -> value"""
    env={}; clash=set()
    def put(name,key):
        if name in env and env[name][0] is not key and env[name][0]!=key: clash.add(name)
        if name not in env: env[name]=(key, mp.mpf(rnd.uniform(0.3,1.7)))
    for node in sympy.preorder_traversal(expr):
        if isinstance(node, Symbolic): continue
        if isinstance(node, sympy.Idx): put(str(node), node); continue
        if isinstance(node, (sympy.Symbol, SymQuantity)):
            nm = node.display_name if isinstance(node, DimensionSymbol) else str(node.name)
            put(nm, node)
        if isinstance(node, sympy.Indexed):
            b=node.base; put(b.display_name if isinstance(b, DimensionSymbol) else str(b), b)
    return {k:v[1] for k,v in env.items()}, clash

def ev_sym(e, env):
    if isinstance(e, Symbolic):
        s=code_str(e); names=list(env)
        return ev_ast(parse(s, names), env)
    if isinstance(e, sympy.Idx): return env[str(e)]
    if isinstance(e, (sympy.Symbol, SymQuantity)):
        nm = e.display_name if isinstance(e, DimensionSymbol) else str(e.name)
        return env[nm]
    if e.is_Number:
        if e is S.Infinity: return mp.inf
        if e is S.NegativeInfinity: return -mp.inf
        return mp.mpf(sympy.Rational(e).p)/mp.mpf(sympy.Rational(e).q) if e.is_Rational else mp.mpf(float(e)) if False else mp.mpmathify(sympy.N(e,40))
    if e is S.Pi: return mp.pi
    if e is S.Exp1: return mp.e
    if e is S.ImaginaryUnit: return mp.mpc(0,1)
    if isinstance(e, sympy.Add):
        r=mp.mpf(0)
        for a in e.args: r+=ev_sym(a,env)
        return r
    if isinstance(e, sympy.Mul):
        r=mp.mpf(1)
        for a in e.args: r*=ev_sym(a,env)
        return r
    if isinstance(e, sympy.Pow): return mp.power(ev_sym(e.base,env), ev_sym(e.exp,env))
    if isinstance(e, sympy.exp): return mp.exp(ev_sym(e.args[0],env))
    if isinstance(e, sympy.log):
        return mp.log(ev_sym(e.args[0],env)) if len(e.args)==1 else mp.log(ev_sym(e.args[0],env))/mp.log(ev_sym(e.args[1],env))
    if isinstance(e, sympy.Indexed):
        b=e.base; nm=b.display_name if isinstance(b, DimensionSymbol) else str(b)
        return opaque("index",[env[nm]]+[ev_sym(i,env) for i in e.indices])
    if isinstance(e, sympy.Derivative):
        vs=[]
        for v,n in e.variable_count: vs += [ev_sym(v,env), mp.mpf(int(n))]
        return opaque("struct",[ev_sym(e.expr,env)]+vs)
    if isinstance(e, sympy.Integral):
        vals=[ev_sym(e.function,env)]
        for lim in e.limits: vals += [ev_sym(x,env) for x in lim]
        return opaque("struct", vals)
    nm=type(e).__name__
    if nm in ("IndexedSum","IndexedProduct"):
        return opaque("struct",[ev_sym(a,env) for a in e.args])
    if isinstance(e, AppliedUndef):
        f=e.func; name=f.display_name if isinstance(f, DimensionSymbol) else f.__name__
        return opaque("fn:"+name,[ev_sym(a,env) for a in e.args])
    if isinstance(e, sympy.Function) and nm in ELEM and len(e.args)==1:
        return ELEM[nm](ev_sym(e.args[0],env))
    raise Unsupported(nm)

def fin(v): 
    return mp.isfinite(v) if not isinstance(v, list) else all(fin(x) for x in v)

def compare(expr, rnd, trials=3):
    """returns ('ok'|'viol'|'inconclusive', detail)"""
    s=code_str(expr)
    sides=[expr.lhs, expr.rhs] if isinstance(expr, sympy.Equality) else [expr]
    decided=0
    for t in range(trials):
        env,clash=atoms_env(expr, rnd)
        if clash: return ("inconclusive","name clash "+str(clash), s)
        try:
            tree=parse(s, list(env))
        except ParseError as x: return ("inconclusive","parse: "+str(x)[:80], s)
        parts=[tree[1],tree[2]] if tree[0]=="eq" else [tree]
        if len(parts)!=len(sides): return ("viol","eq shape", s)
        for pt, sd in zip(parts, sides):
            try:
                a=ev_sym(sd, env)
            except Unsupported as x: return ("inconclusive","orig unsupported "+str(x), s)
            except (ParseError,) as x: return ("inconclusive","orig parse "+str(x)[:60], s)
            except Exception as x: return ("inconclusive","orig eval "+repr(x)[:60], s)
            try:
                b=ev_ast(pt, env)
            except ParseError as x: return ("inconclusive","ast: "+str(x)[:80], s)
            except Exception as x: return ("inconclusive","ast eval "+repr(x)[:60], s)
            if isinstance(a,list) or isinstance(b,list): return ("inconclusive","list value", s)
            if not (fin(a) and fin(b)): continue
            decided+=1
            if abs(a-b) > mp.mpf(10)**-10 * max(1,abs(a),abs(b)):
                return ("viol", f"{mp.nstr(a,12)} vs {mp.nstr(b,12)} env={ {k:mp.nstr(v,6) for k,v in env.items()} }", s)
    return ("ok" if decided else "inconclusive", "no finite sample" if not decided else "", s)

if __name__=="__main__":
    names=json.load(open("/tmp/scratch/modnames.json"))
    rnd=random.Random(5)
    res=collections.Counter(); out=[]
    for n in names:
        p="/repo/"+n.replace(".","/")+".py"
        if not os.path.exists(p): continue
        mod=ast.parse(open(p).read())
        if ast.get_docstring(mod) is None: continue
        try:
            members,_=find_members_and_functions(patch_sympy_evaluate(mod))
        except Exception as e:
            res["exec-fail"]+=1; continue
        for m in members:
            if not m.directives: continue
            v=m.value
            if isinstance(v,(list,tuple)): res["list-member"]+=1; continue
            try:
                r=compare(v, rnd)
            except Exception as e:
                r=("crash", traceback.format_exc()[-300:], "")
            res[r[0]]+=1
            if r[0]!="ok": out.append((n.split('.',1)[1], m.name)+r)
    print(res)
    c=collections.Counter(o[3].split(':')[0][:40] for o in out if o[2]=="inconclusive"); print(c)
    for o in out:
        if o[2]!="inconclusive": print(o)
    for o in out[:400]:
        if o[2]=="inconclusive": print(o[0][-50:],o[1],o[3][:60],"|",o[4][:100])
