from sympy import *
import sympy, time, random
from symplyphysics.core.coordinate_systems.coordinate_systems import CoordinateSystem
from symplyphysics.core.fields.vector_field import VectorField
from symplyphysics.core.fields.analysis import *
rnd=random.Random(2)
C=CoordinateSystem()
t1,t2=sympy.symbols("t1 t2")
def poly(p, deg=2):
    x,y,z=p.x,p.y,p.z
    mons=[1,x,y,z,x*y,y*z,x*z,x**2,y**2,z**2,x**2*y,y**2*x]
    return sum(rnd.choice([0,0,1,-2,3,Rational(1,2)])*m for m in mons)
for it in range(6):
    coefs=[rnd.random() for _ in range(3)]
    st=rnd.getstate()
    def fn(p):
        rnd.setstate(st); return [poly(p),poly(p),poly(p)]
    field=VectorField(fn, C)
    cx,cy,R=rnd.choice([0,1,-2]),rnd.choice([0,1,2]),rnd.choice([1,2])
    a,b=rnd.choice([1,2,3]),rnd.choice([1,2])
    T=time.time()
    circ=circulation_along_curve(field,[cx+a*R*cos(t1),cy+b*R*sin(t1)],(t1,0,2*pi))
    stokes=circulation_along_surface_boundary(field,[cx+a*t1*cos(t2),cy+b*t1*sin(t2)],(t1,0,R),(t2,0,2*pi))
    print("stokes", circ, stokes, simplify(circ-stokes)==0, round(time.time()-T,2))
    T=time.time()
    fl=flux_across_curve(field,[cx+R*cos(t1),cy+R*sin(t1)],(t1,0,2*pi))
    fl2=flux_across_surface_boundary(field,[cx+t1*cos(t2),cy+t1*sin(t2)],(t1,0,R),(t2,0,2*pi))
    print("green", fl, "|", fl2, round(time.time()-T,2))
    T=time.time()
    x0,x1,y0,y1,z0,z1=0,1,-1,2,1,3
    vol=flux_across_volume_boundary(field,(x0,x1),(y0,y1),(z0,z1))
    faces=0
    faces+=flux_across_surface(field,[t1,t2,z1],(t1,x0,x1),(t2,y0,y1))
    faces-=flux_across_surface(field,[t1,t2,z0],(t1,x0,x1),(t2,y0,y1))
    faces+=flux_across_surface(field,[x1,t1,t2],(t1,y0,y1),(t2,z0,z1))
    faces-=flux_across_surface(field,[x0,t1,t2],(t1,y0,y1),(t2,z0,z1))
    faces+=flux_across_surface(field,[t2,y1,t1],(t1,z0,z1),(t2,x0,x1))
    faces-=flux_across_surface(field,[t2,y0,t1],(t1,z0,z1),(t2,x0,x1))
    print("gauss", vol, simplify(faces), simplify(vol-faces)==0, round(time.time()-T,2))
