#!/bin/bash
i=0
for b in 0 3 7 9 10 50 90 99 100 250 500 700 750 760 800 900 1000 5000 8800 9000 9750 9990 10000 99000; do
 for s in 1 2; do
  i=$((i+1))
  echo "$((s*1000+i)) $b"
 done
done | xargs -P 16 -L 1 sh -c 'PYTHONHASHSEED=0 /venv/bin/python /tmp/scratch/hist.py $0 $1 > /tmp/scratch/h_$0_$1.json 2>/dev/null'
