import ast, os, re, json, collections, sys
from pathlib import Path
from symplyphysics.docs.patch import patch_sympy_evaluate
from symplyphysics.docs.parse import find_members_and_functions
from symplyphysics.docs.printer_code import code_str
from symplyphysics.docs.printer_latex import latex_str
import sympy
names=json.load(open("/tmp/scratch/modnames.json"))
out=[]
cmds=collections.Counter(); fails=[]
for n in names:
    p="/repo/"+n.replace(".","/")+".py"
    if not os.path.exists(p): continue
    src=open(p).read()
    mod=ast.parse(src)
    if ast.get_docstring(mod) is None: continue
    try:
        mod=patch_sympy_evaluate(mod)
        members, functions = find_members_and_functions(mod)
    except Exception as e:
        fails.append((n,repr(e)[:100])); continue
    for m in members:
        if m.directives:
            try:
                c=code_str(m.value); l=latex_str(m.value)
            except Exception as e:
                fails.append((n,m.name,repr(e)[:100])); continue
            out.append((n,m.name,c,l))
            for cmd in re.findall(r"\\[A-Za-z]+", l): cmds[cmd]+=1
json.dump(out, open("/tmp/scratch/rendered.json","w"), indent=0)
print(len(out), "fails", fails)
print(cmds.most_common())
fn=collections.Counter()
for n,k,c,l in out:
    for f in re.findall(r"([A-Za-z_][A-Za-z_0-9]*)\(", c): fn[f]+=1
print(fn.most_common())
