from sympy import *
from symplyphysics import *
from symplyphysics.core.coordinate_systems.coordinate_systems import CoordinateSystem, coordinates_transform
from symplyphysics.core.vectors.arithmetics import *
from symplyphysics.core.fields.scalar_field import ScalarField
from symplyphysics.core.fields.vector_field import VectorField
from symplyphysics.core.fields.operators import *
import time
C=CoordinateSystem()
Cy=coordinates_transform(C, CoordinateSystem.System.CYLINDRICAL)
Sp=coordinates_transform(C, CoordinateSystem.System.SPHERICAL)
v=Vector([1.5,-2.0,0.7],C)
vc=v.rebase(Cy); print("cyl",vc.components)
vs=v.rebase(Sp); print("sph",vs.components)
print("back",[N(c) for c in vc.rebase(C).components],[N(c) for c in vs.rebase(C).components])
w=Vector([0.3,0.9,-1.1],C)
print(dot_vectors(v,w), N(dot_vectors(v.rebase(Cy),w.rebase(Cy))), N(dot_vectors(v.rebase(Sp),w.rebase(Sp))))
print(N(vector_magnitude(vs)), N(vector_magnitude(v)))
try:
    vc.rebase(Sp)
except Exception as e: print("cyl->sph:",type(e).__name__,e)
import sympy; a,b,c=sympy.symbols("a b c", positive=True)
vsym=Vector([a,b,c],C)
t=time.time(); r=vsym.rebase(Sp).rebase(C); print([simplify(x) for x in r.components], time.time()-t)
# scalar field
x,y,z=C.coord_system.base_scalars()
f=ScalarField(lambda p: p.x**2*p.y+p.z, C)
fc=f.rebase(Cy); print(fc.to_expression())
fs=f.rebase(Sp); print(fs.to_expression())
# generic function fields
F=Function("F"); 
for sysm in (C,Cy,Sp):
    sf=ScalarField(lambda p: F(p.coordinate(0),p.coordinate(1),p.coordinate(2)), sysm)
    t=time.time()
    g=gradient_operator(sf)
    cu=curl_operator(VectorField.from_vector(g)).apply_to_basis()
    print(sysm.coord_system_type, [simplify(cc) for cc in cu.components], time.time()-t)
    G1,G2,G3=[Function(n) for n in ("G1","G2","G3")]
    vf=VectorField(lambda p:[G(p.coordinate(0),p.coordinate(1),p.coordinate(2)) for G in (G1,G2,G3)], sysm)
    t=time.time()
    d=divergence_operator(curl_operator(vf)); print(simplify(d), time.time()-t)
