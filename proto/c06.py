import sys, random, collections, traceback
sys.path.insert(0,"/tmp/scratch")
import sympy
from sympy import S, Rational, Abs, Min, Max, sin, exp, sqrt, Derivative
from sympy.physics.units import Dimension
from symplyphysics import Quantity, units, Symbol, Function, errors
from symplyphysics.core.dimensions import collect_expression_and_dimension, dimension_to_si_unit
import refdim
refdim.VALUE_AWARE=True
from refdim import deps, deq, fmt, ANY, Inhomogeneous, Unsupported
rnd=random.Random(int(sys.argv[1]) if len(sys.argv)>1 else 0)
BASE=[units.length, units.mass, units.time, units.current, units.temperature]
def rand_dim():
    d=Dimension(1)
    for b in rnd.sample(BASE, rnd.randint(0,2)): d=d*b**rnd.choice([-2,-1,1,2])
    return d
DIMS=[Dimension(1), units.length, units.time, units.mass, units.velocity, units.force, units.energy]+[rand_dim() for _ in range(4)]
SYMS=[Symbol(f"s{i}", rnd.choice(DIMS), positive=True) for i in range(8)]
FUNS=[Function(f"f{i}", [SYMS[0]], rnd.choice(DIMS)) for i in range(3)]
def q_of(dim, mag): 
    u=dimension_to_si_unit(dim); return Quantity(mag*u)
QS=[q_of(rnd.choice(DIMS), rnd.choice([1,2.5,-3,0])) for _ in range(8)]
def leaf():
    k=rnd.random()
    if k<0.5: return rnd.choice(SYMS)
    if k<0.7: return rnd.choice(QS)
    if k<0.9: return sympy.Integer(rnd.choice([0,1,2,-1,3])) if rnd.random()<0.7 else Rational(1,2)
    f=rnd.choice(FUNS); return f(rnd.choice(SYMS))
def same_dim_pair(d):
    # biased generator: often produce same-dimension operands
    a=gen(d-1)
    if rnd.random()<0.6:
        return a, a*rnd.choice([2,Rational(1,3)]) if rnd.random()<0.5 else a*gen(0)/gen(0)
    return a, gen(d-1)
def gen(d):
    if d<=0 or rnd.random()<0.25: return leaf()
    k=rnd.random()
    if k<0.3: return gen(d-1)*gen(d-1)
    if k<0.4: return gen(d-1)/gen(d-1)
    if k<0.6:
        a,b=same_dim_pair(d); return a+b
    if k<0.7: return gen(d-1)**rnd.choice([2,-1,Rational(1,2),3])
    if k<0.78: return Abs(gen(d-1))
    if k<0.88:
        a,b=same_dim_pair(d); return rnd.choice([Min,Max])(a,b)
    if k<0.94:
        f=rnd.choice(FUNS); x=SYMS[0]; return Derivative(f(x), (x, rnd.choice([1,2])))
    return rnd.choice([sin,exp])(gen(d-1)/gen(d-1))
res=collections.Counter(); bad=[]
N=int(sys.argv[2]) if len(sys.argv)>2 else 2000
for i in range(N):
    try: e=gen(rnd.randint(1,4))
    except Exception as ex: res["gen-exc"]+=1; continue
    e=sympy.sympify(e)
    # reference
    try:
        rd=refdim.refdim(e); rerr=None
    except Inhomogeneous as x:
        rd=None; rerr=x.kind
    except Unsupported as x: res["ref-unsupported"]+=1; continue
    except Exception as x: res["ref-crash:"+type(x).__name__]+=1; continue
    if rerr=="function-arg": 
        res["skip fn-arg (lib allows dimensional function args)"]+=1; continue
    try:
        le,ld=collect_expression_and_dimension(e); lerr=None
    except (errors.UnitsError, ValueError) as x: le=None; lerr=type(x).__name__
    except Exception as x:
        res["lib-crash:"+type(x).__name__]+=1; bad.append(("CRASH",str(e)[:120],repr(x)[:100])); continue
    if rd is None and le is None: res["both-error"]+=1; continue
    if rd is None: res["VIOL lib accepts"]+=1; bad.append(("ACCEPT",str(e)[:140],rerr,str(ld))); continue
    if le is None: res["VIOL lib errors"]+=1; bad.append(("ERROR",str(e)[:140],lerr,fmt(rd))); continue
    if not deq(deps(ld), rd): res["VIOL dim"]+=1; bad.append(("DIM",str(e)[:140],fmt(rd),str(ld))); continue
    res["ok"]+=1
print(res)
seen=set()
for b in bad:
    key=(b[0],b[2] if len(b)>2 else "")
    print(b)
    if len(seen)>40: break
    seen.add(b[1])
