import os, json, sys, functools, collections
LOG=collections.Counter()
EVENTS=[]
def rebind(orig, new):
    n=0
    for mname, mod in list(sys.modules.items()):
        if mod is None or not mname.startswith("symplyphysics"): continue
        for k,v in list(vars(mod).items()):
            if v is orig:
                setattr(mod,k,new); n+=1
    return n
def pytest_configure(config):
    import symplyphysics
    from symplyphysics.core import approx
    from symplyphysics.core.dimensions import dimensions as dd
    orig=approx.assert_equal
    @functools.wraps(orig)
    def mon(lhs, rhs, **kw):
        try:
            r=orig(lhs, rhs, **kw); LOG["assert_equal:pass"]+=1; return r
        except AssertionError: LOG["assert_equal:AssertionError"]+=1; raise
        except Exception as e: LOG["assert_equal:"+type(e).__name__]+=1; raise
    print("rebound assert_equal in", rebind(orig, mon), "modules")
    o2=dd.assert_equivalent_dimension
    @functools.wraps(o2)
    def mon2(*a, **kw):
        try:
            r=o2(*a, **kw); LOG["aed:pass"]+=1; return r
        except Exception as e: LOG["aed:"+type(e).__name__]+=1; raise
    print("rebound assert_equivalent_dimension in", rebind(o2, mon2), "modules")
def pytest_sessionfinish(session, exitstatus):
    wid=os.environ.get("PYTEST_XDIST_WORKER","main")
    json.dump(dict(LOG), open(f"/tmp/scratch/plug/log_{wid}.json","w"))
