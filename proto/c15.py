import sys, random, math, itertools, collections
import sympy
from symplyphysics.core.experimental.coordinate_systems import *
from symplyphysics.core.experimental.points import AppliedPoint
from symplyphysics.core.experimental.vectors import VectorSymbol, AppliedVectorFunction
rnd=random.Random(1)
cart=CartesianCoordinateSystem(); cyl=CylindricalCoordinateSystem(); sph=SphericalCoordinateSystem()
S={"cart":cart,"cyl":cyl,"sph":sph}
def to_cart(name, q):
    if name=="cart": return tuple(q)
    if name=="cyl": r,p,z=q; return (r*math.cos(p), r*math.sin(p), z)
    r,t,p=q; return (r*math.sin(t)*math.cos(p), r*math.sin(t)*math.sin(p), r*math.cos(t))
def from_cart(name, c):
    x,y,z=c
    if name=="cart": return (x,y,z)
    if name=="cyl": return (math.hypot(x,y), math.atan2(y,x), z)
    r=math.sqrt(x*x+y*y+z*z); return (r, math.acos(z/r), math.atan2(y,x))
def basis(name, q):
    """rows: base vectors in cartesian components at point q"""
    if name=="cart": return [(1,0,0),(0,1,0),(0,0,1)]
    if name=="cyl":
        r,p,z=q; return [(math.cos(p),math.sin(p),0),(-math.sin(p),math.cos(p),0),(0,0,1)]
    r,t,p=q
    return [(math.sin(t)*math.cos(p),math.sin(t)*math.sin(p),math.cos(t)),
            (math.cos(t)*math.cos(p),math.cos(t)*math.sin(p),-math.sin(t)),
            (-math.sin(p),math.cos(p),0)]
res=collections.Counter(); bad=[]
for it in range(200):
    c=(rnd.uniform(-2,2),rnd.uniform(-2,2),rnd.uniform(-2,2))
    if math.hypot(c[0],c[1])<0.2: continue
    for a,b in itertools.permutations(S,2):
        qa=from_cart(a,c); qb=from_cart(b,c)
        m=express_base_scalars(S[a],S[b])   # a scalars in terms of b scalars
        subs=dict(zip(S[b].base_scalars,qb))
        got=[float(m[s].subs(subs)) for s in S[a].base_scalars]
        ok=all(abs(g-w)<1e-9 for g,w in zip(got,qa))
        res["scalars ok" if ok else "scalars VIOL"]+=1
        if not ok: bad.append(("scal",a,b,qa,got))
        # convert_point
        pa=AppliedPoint(qa,S[a]); pb=convert_point(pa,S[b])
        gotb=[float(pb[s]) for s in S[b].base_scalars]
        ok=all(abs(g-w)<1e-9 for g,w in zip(gotb,qb))
        res["point ok" if ok else "point VIOL"]+=1
        if not ok: bad.append(("pt",a,b,qb,gotb))
        # base vectors: matrix
        pbpt=AppliedPoint(qb,S[b])
        args_a=() if a=="cart" else (pa,); args_b=() if b=="cart" else (pbpt,)
        mv=express_base_vectors(S[a],S[b],old_args=args_a,new_args=args_b)
        ea=S[a].base_vectors(*args_a); eb=S[b].base_vectors(*args_b)
        Ba=basis(a,qa); Bb=basis(b,qb)
        for i,e in enumerate(ea):
            expr=mv[e]
            # interpret: substitute b-scalars numerically, then collect coefficients of eb
            expr=sympy.expand(expr.subs(subs))
            vec=[0,0,0]
            for j,ebj in enumerate(eb):
                cj=float(expr.coeff(ebj)) if expr.has(ebj) else 0.0
                for k in range(3): vec[k]+=cj*Bb[j][k]
            ok=all(abs(vec[k]-Ba[i][k])<1e-9 for k in range(3))
            res["bvec ok" if ok else "bvec VIOL"]+=1
            if not ok: bad.append(("bvec",a,b,i,vec,Ba[i]))
print(res)
for b in bad[:10]: print(b)
for s in S.values(): print(type(s).__name__, s.lame_coefficients)
