import importlib, json, collections, sympy, sys, traceback
sys.path.insert(0,"/tmp/scratch")
from refdim import *
names=json.load(open("/tmp/scratch/modnames.json"))
import symplyphysics
eqs=[]
for n in names:
    try: mod=importlib.import_module(n)
    except Exception as e: continue
    for k,v in vars(mod).items():
        if k.startswith('_'): continue
        items = [v] if isinstance(v, sympy.Basic) else (list(v) if isinstance(v,(list,tuple)) else [])
        for it in items:
            if isinstance(it, sympy.core.relational.Relational):
                eqs.append((n,k,it))
ok=0; bad=[]; uns=collections.Counter(); unsl=[]; undeclared=0
for n,k,e in eqs:
    st={}
    try:
        refdim(e, st); ok+=1
        undeclared += 1 if st.get("undeclared") else 0
    except Inhomogeneous as x:
        bad.append((n,k,x.kind,x.detail,str(x.node)[:100]))
    except Unsupported as x:
        uns[str(x)]+=1; unsl.append((n,k,str(x)))
    except Exception as x:
        uns["CRASH "+type(x).__name__]+=1; unsl.append((n,k,traceback.format_exc()[-300:]))
print("total",len(eqs),"ok",ok,"with undeclared syms",undeclared,"bad",len(bad),"unsupported",sum(uns.values()))
for b in bad: print("BAD",b)
print(uns)
for u in unsl: print("UNS",u)
