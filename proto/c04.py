import sys, random, collections
sys.path.insert(0,"/tmp/scratch")
import sympy
from sympy import S, Rational
from sympy.physics.units import Dimension
from symplyphysics import Quantity, units, validate_input, validate_output, QuantityVector, errors, Symbol, angle_type
from symplyphysics.core.dimensions import dimension_to_si_unit
from refdim import deps, deq, is_dimless, ANY
rnd=random.Random(int(sys.argv[1]) if len(sys.argv)>1 else 0)
BASE=[units.length, units.mass, units.time, units.current, units.temperature, units.amount_of_substance, units.luminous_intensity]
def rand_dim(allow_frac=True):
    d=Dimension(1); 
    for b in rnd.sample(BASE, rnd.randint(0,3)):
        e=rnd.choice([-3,-2,-1,1,2,3]+([Rational(1,2),Rational(-3,2)] if allow_frac else []))
        d=d*b**e
    if rnd.random()<0.15: d=d*angle_type**rnd.choice([1,-1,2])
    return d
def qty_of(dim, mag):
    u=dimension_to_si_unit(dim)
    return Quantity(mag*u)
def expected(actual_vec, declared_vec, value):
    if value in (0,) or value!=value or value in (float('inf'),float('-inf')): return "ok"
    if deq(actual_vec, declared_vec): return "ok"
    if is_dimless(actual_vec) and not is_dimless(declared_vec): return "TypeError"
    return "UnitsError"
res=collections.Counter(); bad=[]
N=int(sys.argv[2]) if len(sys.argv)>2 else 3000
for i in range(N):
    decl=rand_dim()
    k=rnd.random()
    if k<0.4: act=decl
    elif k<0.55: act=decl*rnd.choice(BASE)**rnd.choice([1,-1])
    elif k<0.7: act=rand_dim()
    elif k<0.8: act=Dimension(1)
    else: act=decl*angle_type**rnd.choice([1,-1])
    mag=rnd.choice([0,1,-2.5,1e-30,1e30,float('inf'),float('nan'),3])
    spec = decl if rnd.random()<0.5 else Symbol("p", decl)
    style=rnd.choice(["pos","kw"])
    shape=rnd.choice(["scalar","scalar","list","number"])
    @validate_input(a_=spec)
    def f(z, a_): return 1
    try:
        if shape=="number":
            arg=mag; av={}; 
        elif shape=="scalar":
            arg=qty_of(act,mag); av=deps(act)
        else:
            arg=[qty_of(decl,1.5), qty_of(act,mag)]; av=deps(act)
    except Exception as ex:
        res["gen-exc"]+=1; continue
    exp=expected(av, deps(decl), mag)
    try:
        f(0, arg) if style=="pos" else f(0, a_=arg)
        got="ok"
    except errors.UnitsError: got="UnitsError"
    except TypeError: got="TypeError"
    except Exception as ex: got=type(ex).__name__
    if got==exp: res["agree:"+exp]+=1
    else:
        res["DISAGREE"]+=1; bad.append((str(decl),str(act),mag,shape,style,exp,got))
print(res)
for b in bad[:30]: print(b)
