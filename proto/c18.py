import ast, os, json, sys, collections, random, traceback
sys.path.insert(0,"/tmp/scratch")
from c17 import *
import c17
from parse_latex import parse_latex, check_balanced
from symplyphysics.docs.printer_latex import latex_str

def latex_env(expr, env):
    """latex token -> value, and function latex name -> code name"""
    lenv={}; fn={}
    for node in sympy.preorder_traversal(expr):
        if isinstance(node, Symbolic):
            lenv[latex_str(node)] = ev_sym(node, env); continue
        if isinstance(node, sympy.Idx): lenv[latex_str(node)] = env[str(node)]; continue
        if isinstance(node, (sympy.Symbol, SymQuantity)):
            nm = node.display_name if isinstance(node, DimensionSymbol) else str(node.name)
            lenv[latex_str(node)] = env[nm]
        if isinstance(node, sympy.Indexed):
            b=node.base; nm=b.display_name if isinstance(b, DimensionSymbol) else str(b)
            lenv[b.display_latex if isinstance(b, DimensionSymbol) else str(b)] = env[nm]
        if isinstance(node, AppliedUndef):
            f=node.func
            if isinstance(f, DimensionSymbol): fn[f.display_latex]=f.display_name
            else: fn[f.__name__]=f.__name__
    return lenv, fn

def rename_fn(tree, fn):
    if isinstance(tree, tuple):
        if tree[0]=="name" and tree[1].startswith("FN:"):
            return ("name", fn[tree[1][3:]])
        return tuple(rename_fn(x, fn) for x in tree)
    if isinstance(tree, list): return [rename_fn(x, fn) for x in tree]
    return tree

def compare_latex(expr, rnd, trials=3):
    s=latex_str(expr)
    bal=check_balanced(s)
    if bal: return ("viol","unbalanced: "+bal, s)
    sides=[expr.lhs, expr.rhs] if isinstance(expr, sympy.Equality) else [expr]
    decided=0
    for t in range(trials):
        env,clash=atoms_env(expr, rnd)
        try:
            lenv,fn=latex_env(expr, env)
        except Exception as x: return ("inconclusive","latex env "+repr(x)[:60], s)
        if "i" not in lenv: lenv["i"]=mp.mpc(0,1)
        if "e" not in lenv and False: pass
        try:
            tree=parse_latex(s, list(lenv), list(fn))
            tree=rename_fn(tree, fn)
        except ParseError as x: return ("inconclusive","parse: "+str(x)[:90], s)
        except Exception as x: return ("inconclusive","parse crash: "+repr(x)[:90], s)
        parts=[tree[1],tree[2]] if tree[0]=="eq" else [tree]
        if len(parts)!=len(sides): return ("viol","eq shape", s)
        for pt, sd in zip(parts, sides):
            try: a=ev_sym(sd, env)
            except Unsupported as x: return ("inconclusive","orig unsupported "+str(x), s)
            except Exception as x: return ("inconclusive","orig eval "+repr(x)[:60], s)
            try: b=ev_ast(pt, {**lenv})
            except ParseError as x: return ("inconclusive","ast: "+str(x)[:80], s)
            except Exception as x: return ("inconclusive","ast eval "+repr(x)[:60], s)
            if isinstance(a,list) or isinstance(b,list): return ("inconclusive","list value", s)
            if not (fin(a) and fin(b)): continue
            decided+=1
            if abs(a-b) > mp.mpf(10)**-10 * max(1,abs(a),abs(b)):
                return ("viol", f"{mp.nstr(a,12)} vs {mp.nstr(b,12)}", s)
    return ("ok" if decided else "inconclusive", "no finite sample" if not decided else "", s)

if __name__=="__main__":
    names=json.load(open("/tmp/scratch/modnames.json"))
    rnd=random.Random(5)
    res=collections.Counter(); out=[]
    for n in names:
        p="/repo/"+n.replace(".","/")+".py"
        if not os.path.exists(p): continue
        mod=ast.parse(open(p).read())
        if ast.get_docstring(mod) is None: continue
        try: members,_=find_members_and_functions(patch_sympy_evaluate(mod))
        except Exception as e: res["exec-fail"]+=1; continue
        for m in members:
            if not m.directives: continue
            v=m.value
            if isinstance(v,(list,tuple)): res["list-member"]+=1; continue
            try: r=compare_latex(v, rnd)
            except Exception as e: r=("crash", traceback.format_exc()[-300:], "")
            res[r[0]]+=1
            if r[0]!="ok": out.append((n.split('.',1)[1], m.name)+r)
    print(res)
    c=collections.Counter(o[3].split(':')[0][:40] for o in out if o[2]=="inconclusive"); print(c)
    for o in out:
        if o[2]!="inconclusive": print(o)
    for o in out[:400]:
        if o[2]=="inconclusive" and not o[3].startswith("orig unsupported Imm"): print(o[0][-40:],o[1],o[3][:70],"|",o[4][:110])
