import random, sys, math, time, collections, signal
import sympy
from sympy import S, Add, Mul, Pow, Abs, Symbol as SymSymbol
from symplyphysics import Symbol
from symplyphysics.core.experimental.vectors import *
from symplyphysics.core.experimental.vectors import is_vector_expr

def vadd(a,b): return tuple(x+y for x,y in zip(a,b))
def vscale(k,a): return tuple(k*x for x in a)
def vdot(a,b): return sum(x*y for x,y in zip(a,b))
def vcross(a,b): return (a[1]*b[2]-a[2]*b[1], a[2]*b[0]-a[0]*b[2], a[0]*b[1]-a[1]*b[0])
ZERO=(0.0,0.0,0.0)
def isvec(v): return isinstance(v, tuple)

# generator tree: ('vsym',i) ('vadd',a,b) ('vscale',s,a) ('cross',a,b) ; scalars: ('ssym',i) ('num',n) ('dot',a,b) ('mixed',a,b,c) ('norm',a) ('sadd',..) ('smul',..)
def gen_vec(r, depth, nv, ns):
    if depth<=0 or r.random()<0.3: return ('vsym', r.randrange(nv))
    k=r.random()
    if k<0.35: return ('vadd', gen_vec(r,depth-1,nv,ns), gen_vec(r,depth-1,nv,ns))
    if k<0.6: return ('vscale', gen_sc(r,depth-1,nv,ns), gen_vec(r,depth-1,nv,ns))
    return ('cross', gen_vec(r,depth-1,nv,ns), gen_vec(r,depth-1,nv,ns))
def gen_sc(r, depth, nv, ns):
    if depth<=0 or r.random()<0.25:
        return ('ssym', r.randrange(ns)) if r.random()<0.6 else ('num', r.choice([-3,-2,-1,2,3,sympy.Rational(1,2)]))
    k=r.random()
    if k<0.4: return ('dot', gen_vec(r,depth-1,nv,ns), gen_vec(r,depth-1,nv,ns))
    if k<0.55: return ('mixed', gen_vec(r,depth-1,nv,ns), gen_vec(r,depth-1,nv,ns), gen_vec(r,depth-1,nv,ns))
    if k<0.7: return ('norm', gen_vec(r,depth-1,nv,ns))
    if k<0.85: return ('sadd', gen_sc(r,depth-1,nv,ns), gen_sc(r,depth-1,nv,ns))
    return ('smul', gen_sc(r,depth-1,nv,ns), gen_sc(r,depth-1,nv,ns))

def build(t, V, Sx):
    k=t[0]
    if k=='vsym': return V[t[1]]
    if k=='ssym': return Sx[t[1]]
    if k=='num': return sympy.sympify(t[1])
    if k=='vadd': return build(t[1],V,Sx)+build(t[2],V,Sx)
    if k=='vscale': return build(t[2],V,Sx)*build(t[1],V,Sx)
    if k=='cross': return VectorCross(build(t[1],V,Sx), build(t[2],V,Sx))
    if k=='dot': return VectorDot(build(t[1],V,Sx), build(t[2],V,Sx))
    if k=='mixed': return VectorMixedProduct(build(t[1],V,Sx), build(t[2],V,Sx), build(t[3],V,Sx))
    if k=='norm': return VectorNorm(build(t[1],V,Sx))
    if k=='sadd': return build(t[1],V,Sx)+build(t[2],V,Sx)
    if k=='smul': return build(t[1],V,Sx)*build(t[2],V,Sx)
def sem(t, vv, sv):
    k=t[0]
    if k=='vsym': return vv[t[1]]
    if k=='ssym': return sv[t[1]]
    if k=='num': return float(t[1])
    if k=='vadd': return vadd(sem(t[1],vv,sv),sem(t[2],vv,sv))
    if k=='vscale': return vscale(sem(t[1],vv,sv),sem(t[2],vv,sv))
    if k=='cross': return vcross(sem(t[1],vv,sv),sem(t[2],vv,sv))
    if k=='dot': return vdot(sem(t[1],vv,sv),sem(t[2],vv,sv))
    if k=='mixed': return vdot(sem(t[1],vv,sv), vcross(sem(t[2],vv,sv),sem(t[3],vv,sv)))
    if k=='norm': return math.sqrt(vdot(sem(t[1],vv,sv),sem(t[1],vv,sv)))
    if k=='sadd': return sem(t[1],vv,sv)+sem(t[2],vv,sv)
    if k=='smul': return sem(t[1],vv,sv)*sem(t[2],vv,sv)

def interp(e, env):
    if e in env: return env[e]
    if e.is_Number: return float(e)
    if isinstance(e, VectorCross): return vcross(interp(e.args[0],env), interp(e.args[1],env))
    if isinstance(e, VectorDot): return vdot(interp(e.args[0],env), interp(e.args[1],env))
    if isinstance(e, VectorMixedProduct):
        a,b,c=[interp(x,env) for x in e.args]; return vdot(a,vcross(b,c))
    if isinstance(e, VectorNorm):
        a=interp(e.args[0],env); return math.sqrt(vdot(a,a))
    if isinstance(e, Add):
        vals=[interp(a,env) for a in e.args]
        if any(isvec(v) for v in vals):
            out=ZERO
            for v in vals:
                if not isvec(v):
                    if v==0: continue
                    raise TypeError("scalar+vector")
                out=vadd(out,v)
            return out
        return sum(vals)
    if isinstance(e, Mul):
        sc=1.0; vec=None
        for a in e.args:
            v=interp(a,env)
            if isvec(v):
                if vec is not None: raise TypeError("vec*vec")
                vec=v
            else: sc*=v
        return vscale(sc,vec) if vec is not None else sc
    if isinstance(e, Pow):
        b=interp(e.base,env); x=interp(e.exp,env)
        return b**x
    if isinstance(e, Abs): return abs(interp(e.args[0],env))
    raise TypeError("unsupported "+type(e).__name__)

class TO(Exception): pass
def _h(s,f): raise TO()
signal.signal(signal.SIGALRM,_h)
seed=int(sys.argv[1]) if len(sys.argv)>1 else 0
N=int(sys.argv[2]) if len(sys.argv)>2 else 300
r=random.Random(seed)
res=collections.Counter(); viols=[]
t0=time.time()
for i in range(N):
    nv=r.randint(2,4); ns=2
    pool=[VectorSymbol(f"v{j}") for j in range(nv*2)]
    V=r.sample(pool,nv)
    Sx=[Symbol(f"s{j}", real=True) for j in range(ns)]
    isv=r.random()<0.4
    t=gen_vec(r,3,nv,ns) if isv else gen_sc(r,3,nv,ns)
    try:
        signal.alarm(20)
        e=build(t,V,Sx)
        if hasattr(e,'doit'): e2=e.doit()
        else: e2=e
        signal.alarm(0)
    except TO:
        res['timeout']+=1; continue
    except Exception as ex:
        signal.alarm(0); res['build-exc:'+type(ex).__name__]+=1; viols.append(('EXC',t,repr(ex)[:100])); continue
    bad=False
    for trial in range(3):
        vv=[tuple(r.uniform(-2,2) for _ in range(3)) for _ in range(nv)]
        sv=[r.uniform(0.5,2)*r.choice([-1,1]) for _ in range(ns)]
        env={V[j]:vv[j] for j in range(nv)}; env.update({Sx[j]:sv[j] for j in range(ns)})
        want=sem(t,vv,sv)
        try:
            got=interp(sympy.sympify(e2),env)
        except Exception as ex:
            res['interp-exc']+=1; viols.append(('IEXC',t,str(e2)[:100],repr(ex))); bad=True; break
        if isvec(want)!=isvec(got):
            if isvec(want) and got==0: got=ZERO
            else:
                res['kind-mismatch']+=1; viols.append(('KIND',t,str(e2)[:100])); bad=True; break
        if isvec(want):
            d=max(abs(x-y) for x,y in zip(want,got)); sc=max(1,max(abs(x) for x in want))
        else:
            d=abs(want-got); sc=max(1,abs(want))
        if d>1e-8*sc:
            res['VIOL']+=1; viols.append(('VIOL',t,str(e)[:150],want,got)); bad=True; break
    if not bad: res['ok']+=1
print(res, time.time()-t0)
for v in viols[:25]: print(v)
