import sys, importlib, random, json, hashlib
sys.path.insert(0,"/tmp/scratch")
seed=int(sys.argv[1]); bump=int(sys.argv[2])
names=json.load(open("/tmp/scratch/modnames.json"))
import symplyphysics
from symplyphysics.core.symbols import id_generator as ig
for p in ("SYM","FUN","QTY"): ig._ids[p]=ig._ids.get(p,0)+bump
rnd=random.Random(seed)
if seed>0: rnd.shuffle(names)
import sympy, mpmath as mp
import c17
from c17 import ev_sym, Unsupported
from parse_code import ParseError
from sympy.physics.units import Quantity as SymQuantity
from symplyphysics.core.symbols.symbols import DimensionSymbol
from symplyphysics.core.operations.symbolic import Symbolic
def val_for(name):
    d=hashlib.sha256(name.encode()).digest()
    return mp.mpf(int.from_bytes(d[:4],"big"))/2**32*1.4+0.3
def env_of(expr):
    env={}
    for node in sympy.preorder_traversal(expr):
        if isinstance(node, Symbolic): continue
        if isinstance(node, sympy.Idx): env[str(node)]=val_for("idx:"+str(node)); continue
        if isinstance(node, (sympy.Symbol, SymQuantity)):
            nm=node.display_name if isinstance(node, DimensionSymbol) else str(node.name)
            env[nm]=val_for(nm)
        if isinstance(node, sympy.Indexed):
            b=node.base; nm=b.display_name if isinstance(b, DimensionSymbol) else str(b); env[nm]=val_for(nm)
    return env
out={}
for n in names:
    try: mod=importlib.import_module(n)
    except BaseException as e: out[n]="IMPORT-FAIL "+type(e).__name__; continue
for n in sorted(names):
    mod=sys.modules.get(n)
    if mod is None: continue
    for k,v in sorted(vars(mod).items()):
        if k.startswith("_"): continue
        items=[v] if isinstance(v, sympy.Basic) else (list(v) if isinstance(v,(list,tuple)) else [])
        for j,it in enumerate(items):
            if isinstance(it, sympy.Equality):
                try:
                    env=env_of(it)
                    a=ev_sym(it.lhs,env); b=ev_sym(it.rhs,env)
                    out[f"{n}:{k}:{j}"]=[mp.nstr(a,12), mp.nstr(b,12)]
                except (Unsupported, ParseError, Exception) as e:
                    out[f"{n}:{k}:{j}"]="UNEVAL "+type(e).__name__+" "+str(e)[:40]
json.dump(out, open(f"/tmp/scratch/fp_{seed}_{bump}.json","w"))
