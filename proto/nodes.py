import importlib, json, collections, sympy, sys
from sympy import preorder_traversal
names=json.load(open("/tmp/scratch/modnames.json"))
import symplyphysics
cnt=collections.Counter(); ex={}
eqs=[]
for n in names:
    try: mod=importlib.import_module(n)
    except Exception as e: continue
    for k,v in vars(mod).items():
        if k.startswith('_'): continue
        items = [v] if isinstance(v, sympy.Basic) else (list(v) if isinstance(v,(list,tuple)) else [])
        for it in items:
            if isinstance(it, sympy.core.relational.Relational):
                eqs.append((n,k,it))
for n,k,e in eqs:
    for node in preorder_traversal(e):
        t=type(node)
        name = t.__mro__[1].__name__+"/"+"applied" if isinstance(node, sympy.core.function.AppliedUndef) else t.__name__
        if isinstance(node, sympy.Symbol): name = "Symbol:"+type(node).__name__
        cnt[name]+=1
        ex.setdefault(name,(n.split('.')[-1],k))
for k,v in cnt.most_common(): print(v,k,ex[k])
print(len(eqs))
