from symplyphysics.core.experimental.vectors import *
from symplyphysics import Symbol, Quantity, units
from symplyphysics.core.dimensions import collect_expression_and_dimension
from sympy import Max, Min
a,b,c,d = [VectorSymbol(n) for n in "abcd"]
e = VectorDot(VectorCross(a,b), VectorCross(c,d))
print("dot(cross(a,b),cross(c,d)) =", e)
e2 = VectorDot(VectorCross(a,b), VectorCross(a,b))
print("dot(cross(a,b),cross(a,b)) =", e2)
print("norm(cross(a,b)) =", VectorNorm(VectorCross(a,b)))
print("cross(cross(a,b),cross(c,d)) =", VectorCross(VectorCross(a,b), VectorCross(c,d)))
print("mixed(a, b, a+c)=", VectorMixedProduct(a,b,a+c))
# C06 zero-first
q0 = Quantity(0); q1 = Quantity(1*units.second)
for ex in (Max(q0,q1), q0+q1, Max(q1,q0)):
    try:
        print(ex.args, collect_expression_and_dimension(ex))
    except Exception as e:
        print("ERR", ex.args, type(e).__name__, e)
q0l = Quantity(0, dimension=units.length)
for ex in (q0l+q1,):
    try:
        print(ex.args, collect_expression_and_dimension(ex))
    except Exception as e:
        print("ERR", ex.args, type(e).__name__, e)
from symplyphysics.core.symbols import id_generator
print(id_generator._ids)
