import sys, random, collections, math
sys.path.insert(0,"/tmp/scratch")
import sympy
from sympy import Eq, S
sys.argv_backup=sys.argv; sys.argv=[sys.argv[0],"0","0"]
from c14 import interp, vadd, vscale, vdot, vcross, isvec, ZERO
sys.argv=sys.argv_backup
from symplyphysics import Symbol
from symplyphysics.core.experimental.vectors import *
from symplyphysics.core.experimental.solvers import solve_for_vector, solve_for_scalar, apply
rnd=random.Random(int(sys.argv[1]) if len(sys.argv)>1 else 0)
res=collections.Counter(); bad=[]
N=int(sys.argv[2]) if len(sys.argv)>2 else 500
for it in range(N):
    nv=rnd.randint(2,4)
    V=[VectorSymbol(f"v{j}") for j in range(nv)]
    Sx=[Symbol(f"s{j}", real=True) for j in range(3)]
    def coeff():
        k=rnd.random()
        if k<0.2: return S.NegativeOne
        if k<0.4: return sympy.Integer(rnd.choice([2,3,-2]))
        if k<0.6: return rnd.choice(Sx)
        if k<0.8: return rnd.choice(Sx)+rnd.choice([1,2])
        return rnd.choice(Sx)/rnd.choice(Sx[:2])*rnd.choice([1,-1,2])
    terms=[]
    for v in V:
        w = v if rnd.random()<0.8 else VectorCross(v, rnd.choice(V))
        terms.append(coeff()*w)
    if rnd.random()<0.3: terms.append(coeff()*(V[0]+V[1]))
    expr=sum(terms[1:], terms[0])
    if rnd.random()<0.5:
        k=rnd.randint(1,len(terms)-1)
        inp=Eq(sum(terms[1:k], terms[0]), -sum(terms[k+1:], terms[k]))
    else: inp=expr
    for a in V:
        for red in (True, False):
            try:
                r=solve_for_vector(inp, a, reduce_factor=red)
            except ValueError as ex:
                res["refused-ValueError"]+=1; continue
            except Exception as ex:
                res["exc:"+type(ex).__name__]+=1; bad.append(("EXC",str(inp),str(a),repr(ex)[:80])); continue
            ok=True
            for t in range(3):
                vv={v:tuple(rnd.uniform(-2,2) for _ in range(3)) for v in V}
                env=dict(vv); env.update({s:rnd.uniform(0.5,2) for s in Sx})
                full=interp(sympy.sympify(expr),env)
                if not isvec(full): full=ZERO
                diff=interp(r.lhs-r.rhs,env)
                if not isvec(diff): diff=ZERO if diff==0 else diff
                # coefficient of a in expanded expr: numeric derivative: expr(a+e_x)-expr(a)
                if red:
                    # find scalar c such that diff = full / c : c = |full|/|diff| with sign
                    nf=math.sqrt(vdot(full,full)); nd=math.sqrt(vdot(diff,diff))
                    if nd<1e-12 or nf<1e-12: continue
                    c=vdot(full,diff)/vdot(diff,diff)
                    resid=max(abs(x-c*y) for x,y in zip(full,diff))
                    if resid>1e-8*max(1,nf): ok=False
                    # and lhs must be a
                    la=interp(r.lhs,env)
                    if max(abs(x-y) for x,y in zip(la,vv[a]))>1e-9: ok=False
                else:
                    s1=max(abs(x-y) for x,y in zip(full,diff)); s2=max(abs(x+y) for x,y in zip(full,diff))
                    if min(s1,s2)>1e-8*max(1,math.sqrt(vdot(full,full))): ok=False
            res["ok" if ok else "VIOL"]+=1
            if not ok: bad.append(("VIOL",str(inp)[:150],str(a),red,str(r)[:150]))
print(res)
for b in bad[:20]: print(b)
