import sys, random, collections, math, traceback
sys.path.insert(0,"/tmp/scratch")
import sympy
from sympy import S, Rational, Abs, Min, Max, sin, cos, exp, log, sqrt, Add, Mul, Pow
from sympy.physics.units.prefixes import Prefix
from sympy.physics.units import Quantity as SymQuantity
from symplyphysics import Quantity, units, prefixes, Symbol
from refdim import deps, dmul, dpow, deq, is_dimless, fmt, ANY
import mpmath as mp
mp.mp.dps=30
# own unit table: name -> (SI value, exponent dict) ; mass in kg
B=lambda **k: {a:Rational(b) for a,b in k.items()}
UT={
 "meter":(1,B(length=1)),"kilometer":(1000,B(length=1)),"centimeter":(Rational(1,100),B(length=1)),"millimeter":(Rational(1,1000),B(length=1)),
 "inch":(Rational(254,10000),B(length=1)),
 "kilogram":(1,B(mass=1)),"gram":(Rational(1,1000),B(mass=1)),
 "second":(1,B(time=1)),"minute":(60,B(time=1)),"hour":(3600,B(time=1)),"millisecond":(Rational(1,1000),B(time=1)),
 "ampere":(1,B(current=1)),"kelvin":(1,B(temperature=1)),"mole":(1,B(amount_of_substance=1)),"candela":(1,B(luminous_intensity=1)),
 "newton":(1,B(mass=1,length=1,time=-2)),"joule":(1,B(mass=1,length=2,time=-2)),"watt":(1,B(mass=1,length=2,time=-3)),
 "pascal":(1,B(mass=1,length=-1,time=-2)),"hertz":(1,B(time=-1)),"coulomb":(1,B(current=1,time=1)),
 "volt":(1,B(mass=1,length=2,time=-3,current=-1)),"ohm":(1,B(mass=1,length=2,time=-3,current=-2)),
 "farad":(1,B(mass=-1,length=-2,time=4,current=2)),"tesla":(1,B(mass=1,time=-2,current=-1)),
 "liter":(Rational(1,1000),B(length=3)),"radian":(1,{}),"degree":(None,{}),
}
UT["degree"]=(sympy.pi/180,{})
SI_MASS_CONV=1000  # sympy keeps mass in grams
def lib_si(q):
    """SI value via ratio convention"""
    sf=q.scale_factor
    d=deps(q.dimension)
    if d==ANY: return sf
    m=d.get("mass",0)
    return sf/ (Rational(1000)**m)

class Refuse(Exception): pass
def anyval(v): return v in (S.Zero, S.Infinity, S.NegativeInfinity, S.NaN) or v==0
QREG={}
def ref(e):
    e=sympy.sympify(e)
    if isinstance(e, SymQuantity):
        if e in QREG: return QREG[e]
        nm=str(e.name)
        if nm in UT: return (sympy.sympify(UT[nm][0]), dict(UT[nm][1]))
        raise KeyError("unit "+nm)
    if isinstance(e, Prefix): return (e.scale_factor, {})
    if isinstance(e, Mul):
        v=S.One; d={}
        for a in e.args:
            av,ad=ref(a); v=v*av; d=dmul(d,ad)
        return (v,d)
    if isinstance(e, Pow):
        bv,bd=ref(e.base); xv,xd=ref(e.exp)
        if not (anyval(xv) or is_dimless(xd)): raise Refuse("exp")
        return (bv**xv, dpow(bd,xv))
    if isinstance(e, (Add, Min, Max)):
        terms=[ref(a) for a in e.args]
        dref=None
        for v,d in terms:
            if anyval(v): continue
            if dref is None: dref=d
            elif not deq(dref,d): raise Refuse("sum")
        vals=[v for v,_ in terms]
        val = Add(*vals) if isinstance(e,Add) else type(e)(*vals)
        return (val, dref if dref is not None else {})
    if isinstance(e, Abs):
        v,d=ref(e.args[0]); return (Abs(v),d)
    if isinstance(e, sympy.Derivative): raise Refuse("deriv")
    if isinstance(e, sympy.Function):
        vs=[]
        for a in e.args:
            v,d=ref(a)
            if not (anyval(v) or is_dimless(d)): raise Refuse("fnarg")
            vs.append(v)
        return (e.func(*vs), {})
    if e.free_symbols: raise Refuse("symbol")
    try: complex(e)
    except Exception: raise Refuse("notnumber")
    return (e,{})

rnd=random.Random(int(sys.argv[1]) if len(sys.argv)>1 else 0)
UN=[getattr(units,n) for n in UT]
x=Symbol("x")
def leaf():
    k=rnd.random()
    if k<0.45: return rnd.choice(UN)
    if k<0.6: return sympy.Integer(rnd.choice([0,1,2,3,-1,-2,5,10]))
    if k<0.7: return Rational(rnd.choice([1,3,-5,7]), rnd.choice([2,3,4]))
    if k<0.8: return sympy.Float(rnd.choice([0.5,2.5,-1.25,1e-3,3e8]))
    if k<0.85: return rnd.choice([prefixes.kilo, prefixes.milli, prefixes.micro, units.kilo, units.milli])
    if k<0.9:
        # existing quantity
        e=gen(1)
        try:
            v,d=ref(e); q=Quantity(e); QREG[q]=(v,d); return q
        except Exception: return units.meter
    if k<0.93: return rnd.choice([S.Zero, S.Infinity, S.NaN])
    if k<0.95: return x
    return sympy.Integer(rnd.randint(1,4))
def gen(d):
    if d<=0 or rnd.random()<0.2: return leaf()
    k=rnd.random()
    if k<0.3: return gen(d-1)*gen(d-1)
    if k<0.4: return gen(d-1)/gen(d-1)
    if k<0.58: return gen(d-1)+gen(d-1)
    if k<0.64: return gen(d-1)-gen(d-1)
    if k<0.76: return gen(d-1)**rnd.choice([2,3,-1,-2,Rational(1,2),Rational(1,3),Rational(3,2),0, gen(0)])
    if k<0.82: return Abs(gen(d-1))
    if k<0.9: return rnd.choice([Min,Max])(gen(d-1),gen(d-1))
    return rnd.choice([sin,cos,exp,log,sqrt])(gen(d-1))
res=collections.Counter(); bad=[]
N=int(sys.argv[2]) if len(sys.argv)>2 else 2000
for i in range(N):
    try:
        e=gen(rnd.randint(1,4))
    except Exception as ex:
        res["gen-exc:"+type(ex).__name__]+=1; continue
    try:
        rv=ref(e); rref=None
    except Refuse as r: rv=None; rref=str(r)
    except Exception as ex:
        res["ref-exc:"+type(ex).__name__]+=1; continue
    try:
        q=Quantity(e); lib=(q.scale_factor, q.dimension); lex=None
    except Exception as ex:
        lib=None; lex=ex
    if rv is None and lib is None: res["both-refuse"]+=1; continue
    if rv is None and lib is not None:
        res["VIOL lib accepts, ref refuses"]+=1; bad.append(("ACCEPT",str(e)[:120],rref,str(lib))); continue
    if rv is not None and lib is None:
        res["VIOL lib refuses, ref accepts"]+=1; bad.append(("REFUSE",str(e)[:120],type(lex).__name__,str(lex)[:80],str(rv))); continue
    v,d=rv
    try:
        vs=sympy.N(v,25); ls=sympy.N(lib_si(q) if True else 0,25)
    except Exception as ex:
        res["cmp-exc"]+=1; continue
    # value compare
    try:
        if vs in (S.NaN,) or ls in (S.NaN,) or vs.has(S.NaN) :
            res["nan"]+=1; continue
        if vs.is_infinite or ls.is_infinite or vs.has(S.ComplexInfinity) or ls.has(S.ComplexInfinity):
            res["inf"]+= 1; continue
        # need mass conversion of ref: ref is SI(kg) ; lib_si already divides
        cv=complex(vs); cl=complex(ls)
    except Exception as ex:
        res["cmp-exc2"]+=1; continue
    try:
        big = abs(cv-cl) > 1e-9*max(abs(cv),abs(cl),1e-300)
    except OverflowError:
        res["overflow"]+=1; continue
    if big:
        res["VIOL value"]+=1; bad.append(("VALUE",str(e)[:120],cv,cl)); continue
    if cv!=0:
        ld=deps(q.dimension)
        if not deq(ld,d):
            res["VIOL dim"]+=1; bad.append(("DIM",str(e)[:120],fmt(d),fmt(ld))); continue
    res["ok"]+=1
print(res)
for b in bad[:40]: print(b)
