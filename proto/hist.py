import sys, importlib, random, json, time, traceback
seed=int(sys.argv[1]); bump=int(sys.argv[2])
names=json.load(open("/tmp/scratch/modnames.json"))
import symplyphysics
from symplyphysics.core.symbols import id_generator as ig
for p in ("SYM","FUN","QTY"):
    cur=ig._ids.get(p,0)
    ig._ids[p]=cur+bump
rnd=random.Random(seed)
if seed>=0: rnd.shuffle(names)
fails=[]
t0=time.time()
for n in names:
    try:
        importlib.import_module(n)
    except BaseException as e:
        tb=traceback.extract_tb(e.__traceback__)
        loc=[f"{fr.filename.split('/repo/')[-1]}:{fr.lineno}" for fr in tb if '/repo/' in fr.filename][-1:]
        fails.append((n, type(e).__name__, str(e)[:100], loc))
print(json.dumps({"seed":seed,"bump":bump,"t":time.time()-t0,"ids":dict(ig._ids),"fails":fails}))
