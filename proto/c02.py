import importlib, json, collections, sympy, sys, traceback, inspect, random, math
names=json.load(open("/tmp/scratch/modnames.json"))
import symplyphysics
from symplyphysics import Quantity, units
from symplyphysics.core.symbols.symbols import DimensionSymbol, Symbol, Function, IndexedSymbol
from sympy.physics.units import Dimension, Quantity as SymQuantity
from sympy.physics.units.systems.si import dimsys_SI
from symplyphysics.core.dimensions import dimension_to_si_unit

def unwrap_specs(f):
    """returns (inner function, input_specs dict, output_spec) by closure introspection"""
    ins={}; out=None; same=None
    while hasattr(f, "__wrapped__"):
        cl = dict(zip(f.__code__.co_freevars, [c.cell_contents for c in (f.__closure__ or ())]))
        if "decorator_kwargs" in cl: ins.update(cl["decorator_kwargs"])
        if "expected_unit" in cl: out=cl["expected_unit"]
        if "param_name" in cl: same=cl["param_name"]
        f=f.__wrapped__
    return f, ins, out, same

rnd=random.Random(1)
stats=collections.Counter(); detail=[]
for n in names:
    try: mod=importlib.import_module(n)
    except Exception as e: continue
    law = getattr(mod,"law",None)
    if law is None: law = getattr(mod,"definition",None)
    for k,v in list(vars(mod).items()):
        if not (inspect.isfunction(v) and k.startswith("calculate") and getattr(v,"__module__",None)==n): continue
        stats["functions"]+=1
        inner, ins, out, same = unwrap_specs(v)
        sig=inspect.signature(inner)
        params=list(sig.parameters)
        if not ins and out is None: stats["undecorated"]+=1; detail.append((n,k,"undecorated")); continue
        bad=[p for p in ins if p not in params]
        if bad: stats["guard_names_missing_param"]+=1; detail.append((n,k,"badguard",bad))
        unguarded=[p for p in params if p not in ins]
        if unguarded: stats["has_unguarded_params"]+=1
        if not isinstance(law, sympy.Eq): stats["no_single_law"]+=1; detail.append((n,k,"nolaw",type(law).__name__)); continue
        # all specs symbols?
        kinds=collections.Counter()
        for p,s in ins.items():
            kinds["sym" if isinstance(s,(Symbol,)) else "fun" if isinstance(s,Function) else "idx" if isinstance(s,IndexedSymbol) else "dim" if isinstance(s,Dimension) else "seq" if isinstance(s,(list,tuple)) else type(s).__name__]+=1
        okind="sym" if isinstance(out,Symbol) else "fun" if isinstance(out,Function) else "dim" if isinstance(out,Dimension) else type(out).__name__
        free=law.free_symbols
        atoms_q={a for a in law.atoms(SymQuantity)}
        mapped={s for s in ins.values() if isinstance(s,Symbol)}
        if isinstance(out,Symbol): mapped.add(out)
        unm=[s for s in free if s not in mapped]
        has_fun = bool(law.atoms(sympy.core.function.AppliedUndef)) or bool(law.atoms(sympy.Derivative, sympy.Integral))
        if set(kinds)<= {"sym"} and okind=="sym" and not unm and not has_fun and not unguarded:
            stats["direct"]+=1
        else:
            stats["indirect"]+=1
            detail.append((n.split('.',1)[1],k,dict(kinds),okind,[str(u) for u in unm][:4],"fun" if has_fun else "", unguarded[:3]))
print(stats)
c=collections.Counter()
for d in detail:
    if len(d)>4: c[(tuple(sorted(d[2])), d[3], bool(d[4]), d[5], bool(d[6]))]+=1
for k,v in c.most_common(): print(v,k)
for d in detail[:60]: print(d)

print("=========== residual run")
import mpmath, signal
from symplyphysics import prefixes
class TO(Exception): pass
def _h(s,f): raise TO()
signal.signal(signal.SIGALRM,_h)
def rand_qty(sym, rnd):
    dim=sym.dimension
    unit=dimension_to_si_unit(dim)
    mag=math.exp(rnd.uniform(math.log(0.2), math.log(5)))
    pf=rnd.choice([1,1,1e3,1e-3,1e6,1e-2])
    return Quantity(mag*pf*unit) if unit!=1 else Quantity(mag)
res=collections.Counter(); viol=[]; refused=collections.Counter()
for n in names:
    mod=sys.modules.get(n)
    if mod is None: continue
    law=getattr(mod,"law",None)
    if law is None: law=getattr(mod,"definition",None)
    if not isinstance(law, sympy.Eq): continue
    for k,v in list(vars(mod).items()):
        if not (inspect.isfunction(v) and k.startswith("calculate") and getattr(v,"__module__",None)==n): continue
        inner, ins, out, same = unwrap_specs(v)
        params=list(inspect.signature(inner).parameters)
        if not ins or not isinstance(out,Symbol): continue
        if any(not isinstance(s,Symbol) for s in ins.values()): continue
        if any(p not in ins for p in params): continue
        mapped=set(ins.values())|{out}
        if any(s not in mapped for s in law.free_symbols): continue
        if law.atoms(sympy.core.function.AppliedUndef, sympy.Derivative, sympy.Integral): continue
        for trial in range(3):
            args={p:rand_qty(ins[p],rnd) for p in params}
            try:
                signal.alarm(20)
                r=v(**args)
                signal.alarm(0)
            except TO:
                res["timeout"]+=1; continue
            except Exception as e:
                signal.alarm(0)
                res["refused"]+=1; refused[(n.split('.')[-1],k,type(e).__name__)]+=1; continue
            sub={ins[p]:args[p].scale_factor for p in params}
            # conflict: same symbol for two params
            if len(set(ins.values()))!=len(ins): res["dup_symbol_spec"]+=1; break
            sub[out]=r.scale_factor if isinstance(r,SymQuantity) else r
            try:
                l=law.lhs.subs(sub); rr=law.rhs.subs(sub)
                for q in (l.atoms(SymQuantity)|rr.atoms(SymQuantity)):
                    l=l.subs(q,q.scale_factor); rr=rr.subs(q,q.scale_factor)
                lv=complex(sympy.N(l,30)); rv=complex(sympy.N(rr,30))
            except Exception as e:
                res["evalfail"]+=1; viol.append((n,k,"evalfail",repr(e)[:80])); continue
            scale=max(abs(lv),abs(rv),1e-300)
            if abs(lv-rv)<=1e-7*scale: res["ok"]+=1
            else:
                res["VIOL"]+=1; viol.append((n.split('.',1)[1],k,lv,rv,{p:str(a.scale_factor) for p,a in args.items()}, str(sub[out])))
print(res)
for v_ in viol: print(v_)
print(len(refused)); 
for k_,c_ in list(refused.items())[:40]: print(k_,c_)
