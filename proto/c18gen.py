import sys, random, collections
sys.path.insert(0,"/tmp/scratch")
from c18 import *
from symplyphysics import Symbol
import sympy
from sympy import Rational, sqrt, sin, cos, exp, log, Abs, S
rnd=random.Random(int(sys.argv[1]) if len(sys.argv)>1 else 0)
syms=[Symbol(n) for n in ["a","b","c","x_1","y","T_lab","rho"]]
def gen(d):
    k=rnd.random()
    if d<=0 or k<0.25:
        k2=rnd.random()
        if k2<0.6: return rnd.choice(syms)
        if k2<0.8: return sympy.Integer(rnd.choice([-3,-2,-1,2,3,5,10]))
        if k2<0.9: return Rational(rnd.choice([-3,-1,1,2,5]), rnd.choice([2,3,4,7]))
        return sympy.Float(rnd.choice([0.5,-1.25,2.405,1e-3]))
    if k<0.45: return gen(d-1)+gen(d-1)
    if k<0.55: return gen(d-1)-gen(d-1)
    if k<0.72: return gen(d-1)*gen(d-1)
    if k<0.85: return gen(d-1)/gen(d-1)
    if k<0.93:
        e=rnd.choice([2,3,-1,-2,Rational(1,2),Rational(-1,2),Rational(3,2),Rational(1,3),rnd.choice(syms), -rnd.choice(syms)])
        return gen(d-1)**e
    f=rnd.choice([sin,cos,exp,log,Abs,sqrt])
    return f(gen(d-1))
res=collections.Counter(); bad=[]
N=int(sys.argv[2]) if len(sys.argv)>2 else 2000
seen=set()
for i in range(N):
    try:
        e=gen(rnd.randint(2,5))
    except Exception as x:
        res["gen-exc"]+=1; continue
    if e.is_Number or e in (S.NaN, S.ComplexInfinity): res["trivial"]+=1; continue
    r=compare_latex(e, rnd)
    res[r[0]]+=1
    if r[0]!="ok": bad.append((str(sympy.srepr(e))[:200],)+r)
print(res)
for b in bad[:30]: print(b)
