import importlib, pkgutil, sys, time, traceback, inspect, collections
import sympy
from sympy import Eq
t0=time.time()
import symplyphysics
from symplyphysics import laws, definitions, conditions
mods=[]
errs=[]
for pkg in (laws, definitions, conditions):
    for m in pkgutil.walk_packages(pkg.__path__, pkg.__name__+'.'):
        try:
            mod=importlib.import_module(m.name)
            mods.append((m.name, m.ispkg, mod))
        except Exception as e:
            errs.append((m.name, repr(e)))
print("modules", len(mods), "pkgs", sum(1 for m in mods if m[1]), "errors", errs, "t", time.time()-t0)
neq=0; nlist=0; ncalc=0; nfun=0; ndecor=0
eqnames=collections.Counter()
nocalc=[]
othertypes=collections.Counter()
for name, ispkg, mod in mods:
    if ispkg: continue
    has_calc=False
    for k,v in vars(mod).items():
        if k.startswith('_'): continue
        if isinstance(v, sympy.Basic) and isinstance(v, sympy.core.relational.Relational):
            if getattr(v,'__module__',None): pass
            neq+=1; eqnames[k]+=1; othertypes[type(v).__name__]+=1
        elif isinstance(v,(list,tuple)) and v and all(isinstance(x, sympy.core.relational.Relational) for x in v):
            nlist+=1; eqnames[k+'[]']+=1
        elif inspect.isfunction(v) and v.__module__==mod.__name__ if hasattr(v,'__module__') else False:
            nfun+=1
            if k.startswith('calculate'): ncalc+=1; has_calc=True
            if hasattr(v,'__wrapped__'): ndecor+=1
    if not has_calc: nocalc.append(name)
print("eq",neq,"lists",nlist,"funcs",nfun,"calc",ncalc,"decorated",ndecor)
print(eqnames.most_common(40))
print(othertypes)
print("no calc:", len(nocalc))
for n in nocalc: print("  ",n)
