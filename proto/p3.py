from sympy import *
import sympy, time
from symplyphysics.core.coordinate_systems.coordinate_systems import CoordinateSystem
from symplyphysics.core.fields.vector_field import VectorField
from symplyphysics.core.fields.analysis import *
C=CoordinateSystem()
t1,t2=sympy.symbols("t1 t2")
a,b,c,d,e,R=sympy.symbols("a b c d e R", positive=True)
field=VectorField(lambda p:[a*p.x*p.y+b*p.y**2+c*p.z, d*p.x**2+e*p.y*p.x, p.x*p.y*p.z], C)
T=time.time()
circ=circulation_along_curve(field,[R*cos(t1),R*sin(t1)],(t1,0,2*pi)); print("circ",circ,time.time()-T)
T=time.time()
circ2=circulation_along_surface_boundary(field,[t1*cos(t2),t1*sin(t2)],(t1,0,R),(t2,0,2*pi)); print("stokes",circ2,time.time()-T)
T=time.time()
fl=flux_across_curve(field,[R*cos(t1),R*sin(t1)],(t1,0,2*pi)); print("flux",fl,time.time()-T)
T=time.time()
fl2=flux_across_surface_boundary(field,[t1*cos(t2),t1*sin(t2)],(t1,0,R),(t2,0,2*pi)); print("green",fl2,time.time()-T)
# ellipse
T=time.time()
fl=flux_across_curve(field,[2*cos(t1),3*sin(t1)],(t1,0,2*pi)); print("flux ell",fl,time.time()-T)
T=time.time()
fl2=flux_across_surface_boundary(field,[2*t1*cos(t2),3*t1*sin(t2)],(t1,0,1),(t2,0,2*pi)); print("green ell",fl2,time.time()-T)
# box
T=time.time()
vol=flux_across_volume_boundary(field,(0,1),(0,2),(0,3)); print("gauss vol",vol,time.time()-T)
faces=0
T=time.time()
# z=3 top normal +z : surface [t1,t2,3] normal = d/dt1 x d/dt2 = +z
faces+=flux_across_surface(field,[t1,t2,3],(t1,0,1),(t2,0,2))
faces-=flux_across_surface(field,[t1,t2,0],(t1,0,1),(t2,0,2))
# x=1: [1,t1,t2] normal = y x z = +x
faces+=flux_across_surface(field,[1,t1,t2],(t1,0,2),(t2,0,3))
faces-=flux_across_surface(field,[0,t1,t2],(t1,0,2),(t2,0,3))
# y=2: [t2,2,t1]: d/dt1 = z, d/dt2 = x ; z x x = +y
faces+=flux_across_surface(field,[t2,2,t1],(t1,0,3),(t2,0,1))
faces-=flux_across_surface(field,[t2,0,t1],(t1,0,3),(t2,0,1))
print("gauss faces",simplify(faces),time.time()-T)
