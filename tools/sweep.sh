#!/bin/bash
# tools/sweep.sh <tier> "<ids>" "<seeds>" : run checks on the unchanged tree, one line per run (false-alarm rehearsal)
TIER="${1:-quick}"; IDS="${2:-C01 C02 C03 C04 C05 C06 C07 C08 C09 C10 C11 C12 C13 C14 C15 C16 C17 C18 C19 C20}"; SEEDS="${3:-0}"
cd "$(dirname "$0")/.."
for s in $SEEDS; do for id in $IDS; do
  t0=$(date +%s); VERIF_SEED=$s ./run $id $TIER > /tmp/sweep_${id}_${TIER}_$s.log 2>&1; rc=$?
  echo "$id $TIER seed=$s rc=$rc $(( $(date +%s) - t0 ))s | $(grep -c '^VIOLATION' /tmp/sweep_${id}_${TIER}_$s.log) viol | $(grep -m1 'verdict=' /tmp/sweep_${id}_${TIER}_$s.log | sed 's/.*evaluations/evaluations/' | cut -c1-150)"
  grep -A1 '^VIOLATION' /tmp/sweep_${id}_${TIER}_$s.log | grep 'what:' | head -3 | cut -c1-300
  grep '^INCONCLUSIVE' /tmp/sweep_${id}_${TIER}_$s.log | cut -c1-300
done; done
