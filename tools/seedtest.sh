#!/bin/bash
# tools/seedtest.sh <patch.diff> <ID> [tier]  : apply a seeded change to /repo, run the check, undo the change
set -u
P="$1"; ID="$2"; TIER="${3:-quick}"
cd /repo || exit 2
if ! git diff --quiet; then echo "/repo has uncommitted changes; refusing"; exit 2; fi
git apply "$P" || { echo "PATCH DOES NOT APPLY"; exit 3; }
cd /verif
./run "$ID" "$TIER" > /tmp/seedtest_$ID.log 2>&1; rc=$?
git -C /repo checkout -- .
git -C /repo status --short | grep -v '^??' | head -3
echo "rc=$rc $(grep -c '^VIOLATION' /tmp/seedtest_$ID.log) VIOLATION lines; $(grep -m1 -A1 '^VIOLATION' /tmp/seedtest_$ID.log | tail -1 | cut -c1-300)"
tail -1 /tmp/seedtest_$ID.log | cut -c1-200
exit $rc
