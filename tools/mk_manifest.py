#!/usr/bin/env python3
"""Regenerates MANIFEST.json from the table below (kept next to the checks so that it stays valid)."""
import json, os
HERE = os.path.dirname(os.path.dirname(os.path.abspath(__file__)))
CHECKS = {
 "C20": dict(technique="reference-table monitor on the imported constants objects",
             text="Exhaustive over the finite table: every exported/public constant object is observed after the real import (scale factor under the ratio convention, convert_to_si, dimension exponent vector) and compared with a committed CODATA/IAU table; the seven identities are evaluated on the observed values and through the library's own Quantity arithmetic.",
             note="Trusted: vf/data/constants_ref.json (typed from CODATA 2018/2022, IAU 2015 B2/B3), SymPy's dimension system.", ref="§4 C20"),
}
NOT_APPLICABLE = {}
ALL = [f"C{i:02d}" for i in range(1, 21)]

def main():
    checks = []
    for pid in ALL:
        if pid not in CHECKS:
            continue
        c = CHECKS[pid]
        checks.append({
            "property_id": pid,
            "quick_cmd": f"./run {pid} quick",
            "thorough_cmd": f"./run {pid} thorough",
            "evidence_file": f"evidence/{pid}.json",
            "replay_cmd_template": f"./run {pid} --replay {{path}}",
            "engine": "vf",
            "level_claimed": {"category": "exploration", "text": c["text"], "design_ref": c["ref"]},
            "level_note": c["note"],
            "technique": "runtime monitoring: " + c["technique"],
        })
    na = [{"property_id": p, "reason": NOT_APPLICABLE.get(p, "check not built yet in this session (in progress); no claim made")}
          for p in ALL if p not in CHECKS]
    m = {
        "version": 1,
        "setup_cmd": "./run setup",
        "hooks": {"guard": "SYMPLYPHYSICS_VERIF", "enable": "none needed: monitors are attached from outside (function wrapping, closure introspection, sys.monitoring); /repo carries no hook code",
                  "baseline_off_cmd": "cd /repo && /venv/bin/python -m pytest -ra -q -p no:cacheprovider --timeout=900 --continue-on-collection-errors",
                  "source_commits": [], "add_only": True},
        "engines": [{"name": "vf", "path": "vf/", "serves_properties": [c["property_id"] for c in checks],
                     "kind_free_text": "runtime monitors + reference-model oracles over executions of the real code (Python, subprocess-sharded)"}],
        "checks": checks,
        "not_applicable": na,
        "notes": "All checks: ./run <ID> <quick|thorough>; seeds via VERIF_SEED; code under test = working tree of $VERIF_REPO (default /repo) through PYTHONPATH. Exit 0 held / 1 VIOLATION / 2 INCONCLUSIVE (monitor observed too little).",
    }
    with open(os.path.join(HERE, "MANIFEST.json"), "w") as f:
        json.dump(m, f, indent=1)
    print("wrote MANIFEST.json with", len(checks), "checks;", len(na), "not claimed")

main()
