#!/usr/bin/env python3
"""Regenerates MANIFEST.json from the table below (kept next to the checks so that it stays valid)."""
import json, os
HERE = os.path.dirname(os.path.dirname(os.path.abspath(__file__)))
CHECKS = {
 "C02": dict(technique="conditioning-aware re-solution of the published law against every calculate_* return value, unit-spelling metamorphic relation",
             text="Exploration: every calculate_* function whose guard specifications (recovered from the decorator closures) map parameters and result to symbols of the module's published algebraic law is called on seeded admissible tuples in random prefixes; the returned value must be the 50-digit root of the law (exact rational inputs, Newton from the returned value) within 1e-6, after conditioning and double-precision-instability filters; documented abs/ceil functions come from a committed table and ceil functions are driven to solutions just above integers; every tuple is re-spelled in other prefixes. Functions outside this shape are listed as uncovered with the reason.",
             note="Trusted: closure introspection of the decorators, mpmath.findroot, the exceptions table vf/data/c02_exceptions.json. Negative magnitudes are not generated.", ref="§4 C02"),
 "C09": dict(technique="id-trace monitor on next_id + creation/clone histories with forced name collisions, twin computations, printer output scan",
             text="Exploration over histories: a wrapper on the real id generator checks online that ids increase by one per prefix and no name is issued twice (seeded histories and a full catalogue import); seeded creation/clone histories with colliding display names ('x','x1','x11',...), bare-False and non-commutative assumption sets and counter bumps across digit boundaries check pairwise distinctness, the clone record (dimension, names, subscript, assumptions), non-interference of subs/diff/solve against plainly named SymPy twins, and that print_expression/code_str/latex_str show display names only; Symbolic wrappers of same-named symbols are checked for aliasing.",
             note="Trusted: SymPy's own Symbol semantics for the twins. IndexedSymbol(<SymPy symbol>) is excluded by design of the library.", ref="§4 C09"),
 "C17": dict(technique="own precedence parser of the code rendering, numeric equality with the original tree",
             text="Exploration (generated canonical trees) + exhaustive over the catalogue (every documented member in its documented source form): code_str output is parsed by an own name-aware precedence parser and evaluated at 3 random points with the same mpmath semantics as the original (opaque stand-ins for undefined functions/derivatives/integrals/sums), with conditioning filters for 15-digit float printing.",
             note="Trusted: vf/parse_code.py grammar, mpmath.", ref="§4 C17"),
 "C18": dict(technique="brace/left-right automaton + own ambiguity-tolerant LaTeX-math reader, numeric equality with the original tree",
             text="Same inputs as C17: every latex_str output passes a balance automaton and is read by an own LaTeX-math reader (all combinations of admissible readings of prefix-operator extent); flagged only if no reading has the value of the original at 3 random points.",
             note="Trusted: vf/parse_latex.py reading rules, mpmath. Constructs outside the reader are inconclusive.", ref="§4 C18"),
 "C19": dict(technique="flag-transition trace + page-set/page-content monitors on real generator runs under several histories, hash seeds and directory orders",
             text="Exploration over histories: the real docs/build.py entry point runs in fresh processes (canonical; after a full catalogue import; after computations; other PYTHONHASHSEED with permuted os.walk) with wrappers recording the evaluation-flag trace; the page set is compared with an own walk of the source tree; every page is checked for leftover placeholders/roles, :attr: targets, symbol blocks against the imported module's attributes, :code: strings parsed and compared numerically with the imported module's equations, LaTeX balance; every run is compared file-by-file with a canonical twin and a post-run battery of computations with a fresh process.",
             note="Trusted: the C17/C18 readers; leaf identity by display name. Sphinx HTML stage not run.", ref="§4 C19"),
 "C10": dict(technique="polynomial-identity monitor on the real arithmetic functions with generic symbolic components, exhaustive over operand lengths",
             text="Exhaustive over the length space (0..3)^3 with generic symbolic components: every identity of the statement is decided on the returned components by expand()==0 and by random rational evaluation (one execution stands for all component values); plus seeded numeric draws per length combination and the refusal cases (different CoordinateSystem objects, non-Cartesian operands, >3 components) for all length pairs.",
             note="Trusted: SymPy expand / Rational arithmetic.", ref="§4 C10"),
 "C11": dict(technique="own numeric coordinate transforms as reference for rebase, dot/magnitude/scale and scalar-field values",
             text="Exploration: random vectors (0..3 components, ints/rationals/floats/symbols) and scalar fields are re-expressed between the Cartesian and the cylindrical/spherical system; components, there-and-back, dot products, magnitudes, scalings (negative scalars), projections and field values at corresponding points are compared with transforms written from the definitions; cylindrical<->spherical conversion and foreign point kinds must be refused.",
             note="Trusted: vf/geom_ref.py (core convention: spherical = (r, azimuth, polar)).", ref="§4 C11"),
 "C12": dict(technique="operator identities on generic undefined-function fields + Cartesian reference operators projected on the local basis",
             text="Symbolic executions with generic undefined functions decide curl(grad f)=0 and div(curl F)=0 for all smooth fields in each system; random concrete fields compare the library's cylindrical/spherical gradient, divergence and curl with own Cartesian operators (plain sympy.diff) projected on the local orthonormal basis at random points; fields with 0..2 components must equal the zero-padded field, 4 components are refused by curl.",
             note="Trusted: sympy.diff, vf/geom_ref.py local bases.", ref="§4 C12"),
 "C13": dict(technique="route-vs-route comparison of the library's integral routines + own quadrature + metamorphic reparametrisation",
             text="Exploration: Stokes (circles/ellipses with offset centres, tilted discs, cones, rectangles), Green and Gauss set-ups on random polynomial(/trig) fields with non-constant curl and divergence, a third with generic symbolic coefficients; both library routes must agree with each other and with mpmath quadrature of the hand-pulled-back integrand; results must be free of coordinate/parameter symbols, invariant under t->2t, t->t^2 and negated by orientation reversal.",
             note="Trusted: mpmath.quad, sympy subs/diff for the pull-back. SymPy integrate stalls are inconclusive.", ref="§4 C13"),
 "C15": dict(technique="own geometric model as reference for the conversion tables at random points, all pairs and triples",
             text="Exploration: at random points of each domain (all octants) the twelve conversion tables are checked against each other and against the geometry: scalar round trips, direct == via third system, base-vector matrices orthonormal with det +1 and inverse == transposed reverse, convert_point/convert_vector preserve Cartesian position/components, Lame coefficients == |dr/dq| (library map and finite differences); wrong arity / non-systems refused.",
             note="Trusted: the geometric model in vf/checks/c15.py (ISO convention).", ref="§4 C15"),
 "C16": dict(technique="R^3 interpretation of the returned equations against the generated equation",
             text="Exploration: generated vector equations (coefficients -1, sums, quotients, products needing expansion; cross products and vector functions among the terms; unknown in several expanded terms), every unknown, both reduce_factor modes, expression and Eq input: L-R must equal expr/coeff (or expr) up to sign in R^3 at random assignments and L must be the unknown; solutions substituted back; refusals; solve_for_scalar solutions (incl. radical equations with extraneous roots) substituted into the equation; apply() sides.",
             note="Trusted: vf/vecsem.py, 3 random assignments per case.", ref="§4 C16"),
 "C01": dict(technique="reference dimension algebra + unit-rescaling metamorphic monitor over every equation object after the real imports",
             text="Exhaustive over the catalogue of the working tree: every module is really imported and every published Relational (or list of them) is typed with an independent exponent-vector algebra (declared dimensions; strict exp/trig/hyperbolic arguments and exponents; matrices entrywise with the sum-over-k rule); numerically evaluable equations are additionally checked by rescaling the seven base units (two oracles; their disagreement is reported as a machinery defect, never as a violation). Because dimension is a property of the formula one walk covers all values.",
             note="Trusted: vf/refdim.py node rules (= the statement), SymPy dimsys_SI for expanding declared dimensions.", ref="§4 C01"),
 "C03": dict(technique="history sweep: fresh processes with controlled import order / id-counter bumps / object creations, fingerprints compared with the canonical process",
             text="Exploration over histories: each history (order permutation, counter bumps across 9/10..9999/10000 boundaries through the real next_id, real object creations) runs in a fresh interpreter, imports every catalogue module and emits import outcome, structural+numeric equation fingerprints keyed by leaf identity, and calculate_* probe results; plus modules imported alone. Any import failure or change of meaning relative to the canonical history is a violation.",
             note="Trusted: fixed PYTHONHASHSEED; numeric fingerprints with fixed stand-ins for undefined functions; sampled histories.", ref="§4 C03"),
 "C04": dict(technique="reference gate predicate on harness-decorated functions (real validators) + exhaustive sweep of the catalogue's guarded parameters",
             text="Exploration (core): functions decorated by the harness with the real validate_input/validate_output/validate_output_same for generated declarations are called with generated actual arguments (derived-unit spellings, angle factors, off-by-one exponents, numbers, zero/inf/nan, sequences, quantity vectors) in every call style and at three magnitudes/prefixes; outcome class and message are compared with a reference gate on exponent vectors. Exhaustive (catalogue): guard keys must name parameters; every guarded parameter of every decorated function is fed a wrong-dimension quantity and a bare number and must be refused with an error naming it.",
             note="Trusted: reference gate (statement), SymPy dimsys_SI, closure introspection of the decorators.", ref="§4 C04"),
 "C05": dict(technique="reference-evaluator monitor on Quantity() over generated expression trees",
             text="Exploration: thousands of seeded expression trees (targeted shapes for the interaction of collector branches) go through the real Quantity(); each outcome (scale factor, dimension, refusal) is compared with an independent reference evaluator (own unit table, exponent vectors, refusal rule of the statement) with conditioning/precision filters so that float artefacts end inconclusive, never as violations.",
             note="Trusted: vf/units_ref.py unit table, mpmath arithmetic, SymPy canonicalisation of the input tree (shared by both sides).", ref="§4 C05"),
 "C06": dict(technique="reference dimension algebra + numeric value equality + commuting diagram through Quantity()",
             text="Exploration: seeded trees over dimensioned symbols, applied functions, (zero-valued) quantities and numbers go through the real collect_expression_and_dimension; error <=> reference error, dimension == reference exponent vector (value-aware ANY), returned expression numerically equal to the input, and Quantity(e[symbols:=quantities]) has the inferred dimension.",
             note="Trusted: vf/refdim.py rules (the property statement), SymPy dimsys_SI expansion of declared dimensions, mpmath.", ref="§4 C06"),
 "C07": dict(technique="algebraic-law monitor on convert_to/convert_to_si/evaluate_expression/Celsius helpers",
             text="Exploration: generated (quantity, unit, unit) triples with compound/prefixed/rational-power units (mass exponents other than 0/1 included); definition, composition, SI agreement, refusal, convert_to_float, evaluate_expression and Celsius inverse laws are checked against the own unit table; prefixes table exhaustively.",
             note="Trusted: vf/units_ref.py unit table (SI brochure).", ref="§4 C07"),
 "C08": dict(technique="reference-predicate monitor on assert_equal/approx_equal_*/assert_equal_vectors at the tolerance boundary",
             text="Exploration: generated operand pairs straddling the tolerance boundary with a guard band, complex parts, zero tolerances, unit re-spellings, operand swaps, bare numbers, dimension= with a quantity rhs, vectors of unequal length; each verdict is re-judged by a reference predicate on exact rationals that only asserts the two one-sided implications of the statement.",
             note="Trusted: exact rational arithmetic, own unit table. Absolute tolerances are only exercised on mass-free dimensions (scale factors are gram-based).", ref="§4 C08"),
 "C14": dict(technique="two independent R^3 interpreters (generator tree vs returned SymPy object), dual-number derivatives",
             text="Exploration: seeded expression trees over vector symbols (random id()-rank permutations, shared display names), built with auto-evaluation and evaluate=False+doit(), plus first/second derivatives of trees over vector functions; the returned object is interpreted in R^3 and compared at 3 random assignments with the value of what was written; a small family of nested products is enumerated exhaustively.",
             note="Trusted: coordinate formulas of dot/cross in vf/vecsem.py, mpmath (40 digits).", ref="§4 C14"),
 "C20": dict(technique="reference-table monitor on the imported constants objects",
             text="Exhaustive over the finite table: every exported/public constant object is observed after the real import (scale factor under the ratio convention, convert_to_si, dimension exponent vector) and compared with a committed CODATA/IAU table; the seven identities are evaluated on the observed values and through the library's own Quantity arithmetic.",
             note="Trusted: vf/data/constants_ref.json (typed from CODATA 2018/2022, IAU 2015 B2/B3), SymPy's dimension system.", ref="§4 C20"),
}
NOT_APPLICABLE = {}
ALL = [f"C{i:02d}" for i in range(1, 21)]

def main():
    checks = []
    for pid in ALL:
        if pid not in CHECKS:
            continue
        c = CHECKS[pid]
        checks.append({
            "property_id": pid,
            "quick_cmd": f"./run {pid} quick",
            "thorough_cmd": f"./run {pid} thorough",
            "evidence_file": f"evidence/{pid}.json",
            "replay_cmd_template": f"./run {pid} --replay {{path}}",
            "engine": "vf",
            "level_claimed": {"category": "exploration", "text": c["text"], "design_ref": c["ref"]},
            "level_note": c["note"],
            "technique": "runtime monitoring: " + c["technique"],
        })
    na = [{"property_id": p, "reason": NOT_APPLICABLE.get(p, "check not built yet in this session (in progress); no claim made")}
          for p in ALL if p not in CHECKS]
    m = {
        "version": 1,
        "setup_cmd": "./run setup",
        "hooks": {"guard": "SYMPLYPHYSICS_VERIF", "enable": "none needed: monitors are attached from outside (function wrapping, closure introspection, sys.monitoring); /repo carries no hook code",
                  "baseline_off_cmd": "cd /repo && /venv/bin/python -m pytest -ra -q -p no:cacheprovider --timeout=900 --continue-on-collection-errors",
                  "source_commits": [], "add_only": True},
        "engines": [{"name": "vf", "path": "vf/", "serves_properties": [c["property_id"] for c in checks],
                     "kind_free_text": "runtime monitors + reference-model oracles over executions of the real code (Python, subprocess-sharded)"}],
        "checks": checks,
        "not_applicable": na,
        "notes": "All checks: ./run <ID> <quick|thorough>; seeds via VERIF_SEED; code under test = working tree of $VERIF_REPO (default /repo) through PYTHONPATH. Exit 0 held / 1 VIOLATION / 2 INCONCLUSIVE (monitor observed too little).",
    }
    with open(os.path.join(HERE, "MANIFEST.json"), "w") as f:
        json.dump(m, f, indent=1)
    print("wrote MANIFEST.json with", len(checks), "checks;", len(na), "not claimed")

main()
