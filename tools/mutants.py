#!/usr/bin/env python3
"""Automatic mutation drill: one-token mutants of the anchored core files, filtered by the repository's own tests (a mutant the
tests kill is of no interest), then run against the quick check(s) of the properties anchored in that file.
usage: tools/mutants.py <per-file sample> [seed] [file-substring ...]   -> /verif/seeded/MUTANTS.md (+ .json)
Everything happens in a scratch worktree of /repo's HEAD (VERIF_REPO); /repo is never touched; evidence files are restored."""
import json, os, random, re, shutil, subprocess, sys, time

HERE = os.path.dirname(os.path.dirname(os.path.abspath(__file__)))
WT = "/tmp/mutrepo"
TARGETS = {
    "symplyphysics/core/dimensions/collect_quantity.py": ["C05"],
    "symplyphysics/core/dimensions/collect_expression.py": ["C06"],
    "symplyphysics/core/dimensions/dimensions.py": ["C04", "C07", "C08"],
    "symplyphysics/core/dimensions/miscellaneous.py": ["C05", "C06", "C04"],
    "symplyphysics/core/quantity_decorator.py": ["C04"],
    "symplyphysics/core/convert.py": ["C07"],
    "symplyphysics/core/approx.py": ["C08"],
    "symplyphysics/core/symbols/symbols.py": ["C09"],
    "symplyphysics/core/symbols/quantities.py": ["C05", "C09"],
    "symplyphysics/core/vectors/arithmetics.py": ["C10", "C11"],
    "symplyphysics/core/vectors/vectors.py": ["C10", "C11"],
    "symplyphysics/core/coordinate_systems/coordinate_systems.py": ["C11", "C12"],
    "symplyphysics/core/fields/operators.py": ["C12"],
    "symplyphysics/core/fields/analysis.py": ["C13"],
    "symplyphysics/core/fields/scalar_field.py": ["C11", "C12"],
    "symplyphysics/core/fields/vector_field.py": ["C12", "C11"],
    "symplyphysics/core/experimental/vectors/__init__.py": ["C14"],
    "symplyphysics/core/experimental/coordinate_systems/express_base_scalars.py": ["C15"],
    "symplyphysics/core/experimental/coordinate_systems/express_base_vectors.py": ["C15"],
    "symplyphysics/core/experimental/coordinate_systems/coordinate_systems.py": ["C15"],
    "symplyphysics/core/experimental/coordinate_systems/convert.py": ["C15"],
    "symplyphysics/core/experimental/solvers/__init__.py": ["C16"],
    "symplyphysics/docs/printer_code.py": ["C17"],
    "symplyphysics/docs/printer_latex.py": ["C18"],
    "symplyphysics/docs/miscellaneous.py": ["C17", "C18"],
    "symplyphysics/docs/parse.py": ["C19"],
    "symplyphysics/docs/view.py": ["C19"],
}
OPS = [(r" \+ ", " - "), (r" - ", " + "), (r" \* ", " / "), (r" / ", " * "), (r" == ", " != "), (r" != ", " == "), (r" < ", " <= "), (r" <= ", " < "),
       (r" > ", " >= "), (r" >= ", " > "), (r" and ", " or "), (r" or ", " and "), (r"\bTrue\b", "False"), (r"\bFalse\b", "True"), (r"\bnot ", ""),
       (r"\[0\]", "[1]"), (r"\[1\]", "[0]"), (r"\b1\b", "2"), (r"\b2\b", "3"), (r"\b0\b", "1"), (r" is None", " is not None"), (r" is not None", " is None"),
       (r"\bsin\(", "cos("), (r"\bcos\(", "sin("), (r"\*\*2\b", "**3"), (r"\bmin\(", "max("), (r"\ball\(", "any("), (r"\bany\(", "all(")]


def sh(cmd, **kw):
    return subprocess.run(cmd, shell=True, capture_output=True, text=True, **kw)


def code_lines(path):
    """(index, line) of lines that are code (outside docstrings and comments), heuristically"""
    out, in_doc = [], False
    for i, line in enumerate(open(path, encoding="utf-8").read().split("\n")):
        st = line.strip()
        q = st.count('"""') + st.count("'''")
        if in_doc:
            if q % 2 == 1:
                in_doc = False
            continue
        if q % 2 == 1:
            in_doc = True
            continue
        if not st or st.startswith("#") or st.startswith(("import ", "from ", "@", '"""', "'''", "raise ", "assert ")) or q:
            continue
        out.append((i, line))
    return out


def mutants_of(path, rnd, k):
    cands = []
    for i, line in code_lines(path):
        code = line.split("  #")[0]
        for pat, rep in OPS:
            for m in re.finditer(pat, code):
                if code[:m.start()].count('"') % 2 or code[:m.start()].count("'") % 2:
                    continue   # inside a string literal
                cands.append((i, m.start(), m.end(), rep, pat))
    rnd.shuffle(cands)
    return cands[:k]


def main():
    k = int(sys.argv[1]) if len(sys.argv) > 1 else 3
    seed = int(sys.argv[2]) if len(sys.argv) > 2 else 0
    only = sys.argv[3:]
    rnd = random.Random(seed)
    sh(f"git -C /repo worktree remove --force {WT}")
    assert sh(f"git -C /repo worktree add -q --detach {WT} HEAD").returncode == 0
    env = dict(os.environ, PYTHONPATH=WT, PYTHONDONTWRITEBYTECODE="1")
    rows = []
    keep = {}
    for f in os.listdir(os.path.join(HERE, "evidence")):
        keep[f] = open(os.path.join(HERE, "evidence", f)).read()
    try:
        for rel, props in TARGETS.items():
            if only and not any(o in rel for o in only):
                continue
            path = os.path.join(WT, rel)
            orig = open(path, encoding="utf-8").read()
            for (li, a, b, rep, pat) in mutants_of(path, rnd, k):
                lines = orig.split("\n")
                old_line = lines[li]
                lines[li] = old_line[:a] + rep + old_line[b:]
                open(path, "w", encoding="utf-8").write("\n".join(lines))
                row = {"file": rel, "line": li + 1, "before": old_line.strip()[:110], "after": lines[li].strip()[:110], "props": props}
                t0 = time.time()
                c = sh(f"/venv/bin/python -m py_compile {path}")
                if c.returncode != 0:
                    row["fate"] = "does not compile"
                else:
                    t = sh(f"cd {WT} && timeout 600 /venv/bin/python -m pytest -q -x -p no:cacheprovider -n 8 test/core test/docs 2>&1 | tail -1", env=env)
                    if " passed" not in t.stdout or " failed" in t.stdout or " error" in t.stdout:
                        row["fate"] = "killed by test/core+test/docs"
                    else:
                        t = sh(f"cd {WT} && timeout 1500 /venv/bin/python -m pytest -q -x -p no:cacheprovider -n 10 2>&1 | tail -1", env=env)
                        if " passed" not in t.stdout or " failed" in t.stdout or " error" in t.stdout:
                            row["fate"] = "killed by the full suite"
                        else:
                            row["fate"] = "survives the tests"
                            det = {}
                            for pid in props:
                                r = sh(f"cd {HERE} && VERIF_REPO={WT} ./run {pid} quick 2>&1 | grep -m1 -A1 '^VIOLATION\\|^INCONCLUSIVE' | tail -1", env=dict(os.environ, VERIF_REPO=WT))
                                det[pid] = r.stdout.strip()[:160]
                            row["detected_by"] = {p: v for p, v in det.items() if v}
                            row["fate"] = "survives the tests; " + ("DETECTED by " + ",".join(row["detected_by"]) if row["detected_by"] else "NOT detected")
                row["seconds"] = round(time.time() - t0)
                rows.append(row)
                print(json.dumps(row)[:400], flush=True)
                open(path, "w", encoding="utf-8").write(orig)
    finally:
        sh(f"git -C /repo worktree remove --force {WT}")
        for f, txt in keep.items():
            open(os.path.join(HERE, "evidence", f), "w").write(txt)
    out = os.path.join(HERE, "seeded", f"MUTANTS_{seed}.json")
    json.dump(rows, open(out, "w"), indent=1)
    print("written", out)


if __name__ == "__main__":
    main()
