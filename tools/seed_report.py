#!/usr/bin/env python3
"""For every seeded change under seeded/<ID>_<V>/: apply it to a scratch worktree of /repo's HEAD, run the property's quick
check against that worktree (VERIF_REPO), undo, and write meta.json + seeded/REPORT.md."""
import json, os, re, subprocess, sys
HERE = os.path.dirname(os.path.dirname(os.path.abspath(__file__)))
WT = os.environ.get("SEED_WT", "/tmp/seedrepo")
only = sys.argv[1:]

def sh(cmd, **kw):
    return subprocess.run(cmd, shell=True, capture_output=True, text=True, **kw)

sh(f"flock /tmp/.wt.lock git -C /repo worktree remove --force {WT}")
assert sh(f"flock /tmp/.wt.lock git -C /repo worktree add -q --detach {WT} HEAD").returncode == 0
rows = []
try:
    for d in sorted(os.listdir(os.path.join(HERE, "seeded"))):
        p = os.path.join(HERE, "seeded", d)
        if not os.path.isdir(p) or not os.path.exists(os.path.join(p, "patch.diff")):
            continue
        if only and d not in only and d.split("_")[0] not in only:
            mp = os.path.join(p, "meta.json")
            if os.path.exists(mp):
                rows.append(json.load(open(mp)))
            continue
        prop, var = d.split("_")
        ap = sh(f"git -C {WT} apply {p}/patch.diff")
        meta = {"id": d, "property": prop, "variant": var}
        notes = open(os.path.join(p, "notes.md")).read() if os.path.exists(os.path.join(p, "notes.md")) else ""
        meta["what_it_needs_to_manifest"] = " ".join(notes.split())[:700]
        meta["confirmation"] = open(os.path.join(p, "confirm.txt")).read().strip() if os.path.exists(os.path.join(p, "confirm.txt")) else "not re-confirmed"
        meta["files_touched"] = re.findall(r"^\+\+\+ b/(.*)$", open(os.path.join(p, "patch.diff")).read(), re.M)
        if ap.returncode != 0:
            meta["detected"] = None
            meta["ran"] = "patch does not apply to the current HEAD: " + ap.stderr[:200]
        else:
            r = sh(f"cd {HERE} && VERIF_REPO={WT} ./run {prop} quick", timeout=3000)
            ev = {}
            try:
                ev = json.load(open(os.path.join(HERE, "evidence", f"{prop}.json")))["coverage"]
            except Exception:
                pass
            keys = list((ev.get("unlisted_violation_keys") or {}).keys())[:4]
            first = ""
            m = re.search(r"^  what: (.*)$", r.stdout, re.M)
            if m:
                first = m.group(1)[:300]
            meta["detected"] = r.returncode == 1
            meta["ran"] = f"git apply patch.diff (scratch worktree of /repo HEAD); VERIF_REPO=<worktree> ./run {prop} quick -> exit {r.returncode}, {len(ev.get('unlisted_violation_keys') or {})} violation keys"
            meta["violation_keys"] = keys
            meta["first_violation"] = first
            sh(f"git -C {WT} checkout -- .")
            sh(f"git -C {WT} clean -fdq")
        json.dump(meta, open(os.path.join(p, "meta.json"), "w"), indent=1)
        rows.append(meta)
        print(d, meta.get("detected"), (meta.get("violation_keys") or [""])[0][:80], flush=True)
finally:
    sh(f"flock /tmp/.wt.lock git -C /repo worktree remove --force {WT}")
    # restore the evidence of the unchanged tree for the properties touched
with open(os.path.join(HERE, "seeded", "REPORT.md"), "w") as f:
    f.write("# Seeded changes and the checks that catch them\n\n| change | files | detected by `./run <ID> quick` | first violation key |\n|---|---|---|---|\n")
    for m in rows:
        f.write(f"| {m['id']} | {', '.join(x.split('/')[-1] for x in m.get('files_touched', []))} | {'yes' if m.get('detected') else ('NO' if m.get('detected') is False else 'n/a')} | {(m.get('violation_keys') or [''])[0][:90]} |\n")
print("report written")
