#!/bin/bash
# tools/seedtest_wt.sh <patch.diff> <ID> [tier] : like seedtest.sh but on a scratch worktree of /repo's HEAD (VERIF_REPO), so
# /repo itself is never touched and background sweeps are not disturbed. Evidence of the property is NOT overwritten.
set -u
P="$1"; ID="$2"; TIER="${3:-quick}"; WT="/tmp/st_${ID}_$$"
flock /tmp/.wt.lock git -C /repo worktree add -q --detach "$WT" HEAD || exit 2
git -C "$WT" apply "$P" || { echo "PATCH DOES NOT APPLY"; git -C /repo worktree remove --force "$WT"; exit 3; }
cd /verif
cp evidence/$ID.json /tmp/ev_keep_${ID}_$$.json 2>/dev/null
VERIF_REPO="$WT" ./run "$ID" "$TIER" > /tmp/seedtest_${ID}_$$.log 2>&1; rc=$?
cp /tmp/ev_keep_${ID}_$$.json evidence/$ID.json 2>/dev/null; rm -f /tmp/ev_keep_${ID}_$$.json
flock /tmp/.wt.lock git -C /repo worktree remove --force "$WT"
echo "rc=$rc $(grep -c '^VIOLATION' /tmp/seedtest_${ID}_$$.log) VIOLATION lines; $(grep -m1 -A1 '^VIOLATION' /tmp/seedtest_${ID}_$$.log | tail -1 | cut -c1-300)"
tail -1 /tmp/seedtest_${ID}_$$.log | cut -c1-200
rm -f /tmp/seedtest_${ID}_$$.log
exit $rc
