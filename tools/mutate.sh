#!/bin/bash
# tools/mutate.sh <ID> <file relative to repo> <python-regex> <replacement> : apply one textual mutation to a scratch worktree of
# /repo HEAD, run the quick check against it (VERIF_REPO), report, remove the worktree.
ID="$1"; F="$2"; PAT="$3"; REP="$4"; WT="/tmp/mut_$$"
git -C /repo worktree add -q --detach "$WT" HEAD || exit 2
/venv/bin/python - "$WT/$F" "$PAT" "$REP" <<'PY'
import re,sys
p,pat,rep=sys.argv[1:4]
s=open(p).read()
n=len(re.findall(pat,s))
if n<1: print("PATTERN NOT FOUND"); sys.exit(3)
open(p,'w').write(re.sub(pat,rep,s,count=1))
PY
rc0=$?
if [ $rc0 -eq 0 ]; then
  cd /verif && VERIF_REPO="$WT" ./run "$ID" quick > /tmp/mut_$ID.log 2>&1; rc=$?
  echo "$ID [$F: $PAT -> $REP] rc=$rc $(grep -c '^VIOLATION' /tmp/mut_$ID.log) viol | $(grep -m1 'what:' /tmp/mut_$ID.log | cut -c1-200)"
fi
git -C /repo worktree remove --force "$WT"
