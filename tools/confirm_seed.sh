#!/bin/bash
# tools/confirm_seed.sh <ID> <variant> : confirm a sub-agent's seeded change in a scratch worktree of /repo's HEAD and file it
# under /verif/seeded/<ID>_<variant>/ (patch.diff, demo.py, notes.md, confirm.txt)
set -u
ID="$1"; V="$2"; SRC="/tmp/seed_out/$ID/$V"; WT="/tmp/cs_${ID}_$V"; OUT="/verif/seeded/${ID}_$V"
[ -f "$SRC/patch.diff" ] || { echo "no patch in $SRC"; exit 2; }
flock /tmp/.wt.lock git -C /repo worktree add -q --detach "$WT" HEAD || exit 2
res="head=$(git -C /repo rev-parse --short HEAD)"
( cd "$WT" && PYTHONPATH="$WT" timeout 300 /venv/bin/python "$SRC/demo.py" >/dev/null 2>&1 ); res="$res demo_clean_rc=$?"
if git -C "$WT" apply "$SRC/patch.diff" 2>/dev/null; then
  res="$res applies=yes"
  ( cd "$WT" && PYTHONPATH="$WT" timeout 300 /venv/bin/python "$SRC/demo.py" >/dev/null 2>&1 ); res="$res demo_patched_rc=$?"
  t=$( cd "$WT" && PYTHONPATH="$WT" timeout 1200 /venv/bin/python -m pytest -q -p no:cacheprovider -n ${CS_N:-6} 2>&1 | tail -1 )
  res="$res tests_patched=[$t]"
else
  res="$res applies=NO"
fi
flock /tmp/.wt.lock git -C /repo worktree remove --force "$WT"
mkdir -p "$OUT"; cp "$SRC/patch.diff" "$SRC/demo.py" "$OUT/"; [ -f "$SRC/notes.md" ] && cp "$SRC/notes.md" "$OUT/"
echo "$res" | tee "$OUT/confirm.txt"
